"""
C12 - middlewares and error handlers run once per request element, in the declared order.
Mode E1: all middleware stacks (0..2/3 of pass-through / short-circuit / request-rewriting / response-rewriting) x
error-handler tables x request kinds x sync / async.  Oracle: reference server S3 extended with an explicit middleware /
handler layer, compared on the event log written by the instrumented middlewares / handlers and on the response.
"""
import itertools
import json

import pjrpc
import pjrpc.server
from pjrpc.common import UNSET, Request, Response, UnsetType
from pjrpc.common.exceptions import JsonRpcError

from mc.harness import methods
from mc.harness.server import parse_return
from mc.refmodel import server as ref
from mc.refmodel.server import ABSENT, NOTHING
from mc.refmodel.wire import INVALID, request_object_class
from mc.vloop import VLoop

from .common_server import norm

TABLE = dict(methods.STD_TABLE, perrz=dict(kind='perr', params=[], code=0, message='zero', cls='base'))
CTX = object()
RAISED_CODES = [-32601, -32602, 1234, -32000, -32603, 0]
# methods whose handling fails before the body runs (broken view constructor / validator): the -32603 path
INTERNAL = {'vboom': dict(kind='internal', params=[]), 'valboom': dict(kind='internal', params=[])}
REF_TABLE = dict(TABLE, **INTERNAL)

HANDLER_TABLES = {
    'none': {},
    'generic1': {None: ['id']},
    'generic2': {None: ['id', 'id']},
    'percode1': {'code': ['id']},
    'percode2': {'code': ['id', 'id']},
    'generic+percode': {None: ['id'], 'code': ['id']},
    'replace-generic': {None: ['replace'], 'code': ['id'], 'newcode': ['id']},
    'replace-percode': {'code': ['replace', 'id'], 'newcode': ['id']},
    'replace-then-generic': {None: ['replace', 'id']},
    # the SAME callable listed more than once (F: one function object; B: equal bound methods of one object)
    'same-twice-generic': {None: [('id', 'F1'), ('id', 'F1')]},
    'same-generic+percode': {None: [('id', 'F1')], 'code': [('id', 'F1')]},
    'same-around-replace': {None: [('id', 'B1'), 'replace', ('id', 'B1')], 'newcode': [('id', 'B1')]},
    'same-twice-percode': {'code': [('id', 'B1'), 'id', ('id', 'B1')]},
    # handlers that write into the error object they are given
    'stamp-generic': {None: ['stamp']},
    'stamp-percode': {None: ['id'], 'code': ['stamp']},
    # the mapping was filled per-code FIRST (as in examples/server_prometheus_metrics.py): the generic handlers still run first
    'percode-first': {'code': ['id'], None: ['id']},
    'percode-first-replace': {'code': ['id'], None: ['replace'], 'newcode': ['id']},
}


def new_code(hid):
    return 9000 + hid


def expand_table(name):
    """-> dict key -> [(hid, kind)] with concrete keys; a shared handler (kind, tag) has ONE id (100 + n) wherever it is listed"""
    t = HANDLER_TABLES[name]
    out = {}
    hid = 0
    for key, kinds in t.items():
        keys = [None] if key is None else (RAISED_CODES if key == 'code' else [new_code(i) for i in range(0, 12)])
        for k in keys:
            lst = []
            for kind in kinds:
                if isinstance(kind, tuple):
                    lst.append((100 + int(kind[1][1:]), (kind[0], kind[1][0])))
                else:
                    lst.append((hid, kind))
                hid += 1
            out[k] = lst
            if key == 'newcode':
                hid -= len(kinds)     # same handler ids for every possible new code (keeps the table small)
        if key == 'newcode':
            hid += len(kinds)
    return out


def _snap(params):
    return (list(params) if isinstance(params, list) else dict(params)) if params else None


def hkind(kind):
    return kind[0] if isinstance(kind, tuple) else kind


def build(disp, stack, table_name, events, mbs=None, shapes='list'):
    is_async = disp.startswith('async')
    table = expand_table(table_name)

    def mw_sync(i, kind):
        def mw(rq, cx, handler):
            events.append(('mw', i, 'in', rq.method, _snap(rq.params), rq.id, cx is CTX))
            if kind == 'short':
                return Response(id=rq.id, result={'short': i})
            if kind == 'mutate' and isinstance(rq.params, list):
                rq.params.append(i)          # e.g. a middleware injecting a server-side argument into the request it was given
            req = Request('ok', [i], id=rq.id) if kind == 'rewrite' else rq
            r = handler(req, cx)
            events.append(('mw', i, 'out', rq.method, _snap(rq.params), rq.id, cx is CTX))
            if kind == 'wrap' and not isinstance(r, UnsetType) and r.is_success:
                return Response(id=r.id, result={'w': i, 'inner': r.result})
            return r
        return mw

    def mw_async(i, kind):
        async def mw(rq, cx, handler):
            events.append(('mw', i, 'in', rq.method, _snap(rq.params), rq.id, cx is CTX))
            if shapes == 'suspend':
                await methods._pause()      # really yields to the loop: the elements of a concurrent batch interleave here
            if kind == 'short':
                return Response(id=rq.id, result={'short': i})
            if kind == 'mutate' and isinstance(rq.params, list):
                rq.params.append(i)          # e.g. a middleware injecting a server-side argument into the request it was given
            req = Request('ok', [i], id=rq.id) if kind == 'rewrite' else rq
            r = await handler(req, cx)
            events.append(('mw', i, 'out', rq.method, _snap(rq.params), rq.id, cx is CTX))
            if kind == 'wrap' and not isinstance(r, UnsetType) and r.is_success:
                return Response(id=r.id, result={'w': i, 'inner': r.result})
            return r
        return mw

    def eh_sync(hid, kind):
        def eh(rq, cx, error):
            events.append(('eh', hid, rq.method, rq.id, error.code, cx is CTX))
            if kind == 'stamp':
                error.data = {'stamped-for': rq.id, 'by': hid}       # the handler enriches the error it was given IN PLACE
                return error
            return JsonRpcError(new_code(hid), 'replaced') if kind == 'replace' else error
        return eh

    def eh_async(hid, kind):
        async def eh(rq, cx, error):
            events.append(('eh', hid, rq.method, rq.id, error.code, cx is CTX))
            if kind == 'stamp':
                error.data = {'stamped-for': rq.id, 'by': hid}
                return error
            return JsonRpcError(new_code(hid), 'replaced') if kind == 'replace' else error
        if shapes == 'future-handlers' and hid % 2 == 0:
            # a handler that is a plain function returning an awaitable that is NOT a coroutine object (a Future / Task, e.g.
            # asyncio.shield(..) or loop.run_in_executor(..))
            import asyncio

            def eh_future(rq, cx, error):
                return asyncio.ensure_future(eh(rq, cx, error))
            return eh_future
        return eh

    shared = {}

    class Holder:
        """handlers that are bound methods: every attribute access gives a new, equal object"""
        def __init__(self, hid, kind):
            self.f = (eh_async if is_async else eh_sync)(hid, kind)

        if is_async:
            async def handle(self, rq, cx, error):
                return await self.f(rq, cx, error)
        else:
            def handle(self, rq, cx, error):
                return self.f(rq, cx, error)

    def make_eh(hid, kind):
        if not isinstance(kind, tuple):
            return (eh_async if is_async else eh_sync)(hid, kind)
        if kind[1] == 'F':
            if hid not in shared:
                shared[hid] = (eh_async if is_async else eh_sync)(hid, kind[0])
            return shared[hid]
        if hid not in shared:
            shared[hid] = Holder(hid, kind[0])
        return shared[hid].handle

    pass_shared = []

    def make_mw(i, k):
        if shapes == 'shared-mw' and k == 'pass':
            # one pass-through middleware object listed at several positions of the stack
            if not pass_shared:
                pass_shared.append((mw_async if is_async else mw_sync)('S', 'pass'))
            return pass_shared[0]
        return (mw_async if is_async else mw_sync)(i, k)
    mws = [make_mw(i, k) for i, k in enumerate(stack)]
    ehs = {k: [make_eh(hid, kind) for hid, kind in v] for k, v in table.items()}
    cls = pjrpc.server.AsyncDispatcher if is_async else pjrpc.server.Dispatcher
    kw = dict(concurrent_batch=False) if disp == 'async-seq' else {}
    if shapes == 'iterators':
        # the documented types are Iterable / Dict: a one-shot iterator of middlewares and tuples of handlers must do
        mws = iter(list(mws))
        ehs = {k: tuple(v) for k, v in ehs.items()}
    d = cls(middlewares=mws, error_handlers=ehs, max_batch_size=mbs, **kw)
    log = []
    # the event-log oracle compares one global sequence: methods do not suspend here (interleavings are C10's business)
    methods.register(d, TABLE, log, is_async=is_async, pause=False)
    from .c01 import register_internal_failures
    register_internal_failures(d)
    return d, log, table


# ---- reference ----------------------------------------------------------------------------------------------------------
def ref_element(o, stack, table, events, calls):
    """o: valid request object -> answer | NOTHING"""
    def core(req):
        body, c = ref.ref_call(req, REF_TABLE)
        calls.extend(c)
        if 'code' in body:
            raised = body['code']
            cur = dict(body)
            for hid, kind in table.get(None, []) + table.get(raised, []):
                events.append(('eh', hid, req['method'], req.get('id'), cur['code'], True))
                if hkind(kind) == 'stamp':
                    code_, msg_ = cur['code'], (cur['exact'][1] if cur.get('exact') else None)
                    cur = dict(code=code_, stamped={'stamped-for': req.get('id'), 'by': hid}, exact=((code_, msg_, {'stamped-for': req.get('id'), 'by': hid}) if msg_ is not None else None))
                if hkind(kind) == 'replace':
                    cur = dict(code=new_code(hid), exact=(new_code(hid), 'replaced', ABSENT))
            body = cur
        if req.get('id') is None:
            return NOTHING
        return dict(id=req['id'], **body)

    def chain(i, req):
        if i == len(stack):
            return core(req)
        kind = stack[i]
        ev = (req['method'], req.get('params') or None, req.get('id'), True)
        events.append(('mw', i, 'in') + ev)
        if kind == 'short':
            return dict(id=req.get('id'), result={'short': i})
        if kind == 'mutate' and isinstance(req.get('params', []), list):
            req = dict(req, params=list(req.get('params', [])) + [i])
        if 'mutate' in stack and isinstance(o.get('params', []), list):
            # one request object travels down the stack (mutating stacks hold no rewriting middleware): on the way out every
            # middleware sees it as the innermost mutating middleware left it
            ev = (req['method'], list(o.get('params', [])) + [j for j, k in enumerate(stack) if k == 'mutate'], req.get('id'), True)
        inner = chain(i + 1, dict(jsonrpc='2.0', method='ok', params=[i], **({'id': req['id']} if req.get('id') is not None else {}))
                      if kind == 'rewrite' else req)
        events.append(('mw', i, 'out') + ev)
        if kind == 'wrap' and inner is not NOTHING and 'result' in inner:
            return dict(id=inner['id'], result={'w': i, 'inner': inner['result']})
        return inner
    return chain(0, o)


def reference(doc, stack, table, mbs):
    """-> (answer, events, calls); documents rejected before dispatch run nothing"""
    events, calls = [], []
    if isinstance(doc, list):
        if not doc or any(request_object_class(e) == INVALID for e in doc) or ref.ids_duplicate(doc) or (mbs and len(doc) > mbs):
            return ref.REJECT, [], []
        answers = []
        for e in doc:
            a = ref_element(e, stack, table, events, calls)
            if a is not NOTHING:
                answers.append(a)
        return (answers if answers else NOTHING), events, calls
    if request_object_class(doc) == INVALID:
        return ref.REJECT, [], []
    return ref_element(doc, stack, table, events, calls), events, calls


def call(method, params=None, id=1):
    o = {'jsonrpc': '2.0', 'method': method}
    if params is not None:
        o['params'] = params
    if id is not None:
        o['id'] = id
    return o


REQUESTS = {
    'ok': call('ok', [1]), 'unknown': call('nope', [1]), 'nobind': call('add', [1]), 'perr': call('perr'), 'boom': call('boom'),
    'ok-n': call('ok', [1], id=None), 'unknown-n': call('nope', id=None), 'nobind-n': call('add', [1], id=None),
    'perr-n': call('perr', id=None), 'boom-n': call('boom', id=None),
    'batch': [call('ok', [1], id=1), call('boom', id=None), call('perr', id=3), call('nope', id='x')],
    'batch-n': [call('ok', [1], id=None), call('perr', id=None)],
    'invalid': {'jsonrpc': '2.0', 'id': 1}, 'empty-batch': [], 'batch-invalid-elem': [call('ok', [1]), 1],
    'oversize': [call('ok', [1], id=1), call('ok', [2], id=2)],
    'null-result': call('nop'),
    'perr0': call('perrz'), 'perr0-n': call('perrz', id=None),
    # two ANSWERED failures before the method body (-32603) in one batch: each one's handlers work on that element's own error
    'batch-internal2': [call('vboom', id=1), call('valboom', id=2), call('ok', [1], id=3), call('vboom', id=4)],
    'internal': call('valboom'), 'internal-n': call('vboom', id=None),
    'batch-internal': [call('vboom', id=1), call('ok', [1], id=2), call('valboom', id=None)],
    # a batch longer than any round chunk size: every element passes the whole chain
    'batch-long': [call('ok', [i], id=i) if i % 3 else call('perr', id=i) for i in range(1, 301)],
    # requests WITHOUT a params member
    'paramless': call('ok'), 'batch-paramless': [call('ok', id=1), call('ok', id=2), call('ok', id=None), call('nop', id=3)],
}
MUTATE_REQUESTS = ('paramless', 'batch-paramless', 'ok', 'perr', 'null-result', 'batch')


def gen_cases(ctx):
    L = ctx.pick(4, 5)
    for n in range(0, L + 1):
        for stack in itertools.product(['pass', 'short', 'rewrite', 'wrap'], repeat=n):
            for table in HANDLER_TABLES:
                for rq in list(REQUESTS) + ['unparsable']:
                    if rq == 'batch-long' and (n > 1 or table not in ('none', 'generic+percode')):
                        continue
                    for disp in ('sync', 'async', 'async-seq'):
                        if disp == 'async-seq' and not isinstance(REQUESTS.get(rq), list):
                            continue      # sequential batch mode only matters for batches
                        yield dict(stack=stack, table=table, request=rq, disp=disp)
                        if n and n <= 2 and rq in ('ok', 'batch', 'boom-n') and table in ('none', 'generic+percode'):
                            yield dict(stack=stack, table=table, request=rq, disp=disp, shapes='iterators')
                        if n and n <= 3 and disp == 'async' and rq in ('batch', 'batch-n', 'batch-internal') and table in ('none', 'generic+percode', 'replace-generic'):
                            yield dict(stack=stack, table=table, request=rq, disp=disp, shapes='suspend')
                        if n <= 1 and disp.startswith('async') and table != 'none' and rq in ('unknown', 'perr', 'batch', 'boom-n', 'internal'):
                            yield dict(stack=stack, table=table, request=rq, disp=disp, shapes='future-handlers')
                        if stack.count('pass') >= 2 and n <= 3 and rq in ('ok', 'batch', 'perr-n') and table in ('none', 'same-generic+percode'):
                            yield dict(stack=stack, table=table, request=rq, disp=disp, shapes='shared-mw')


def gen_mutate_cases(ctx):
    for n in range(1, ctx.pick(3, 4) + 1):
        for stack in itertools.product(['pass', 'mutate', 'wrap'], repeat=n):
            if 'mutate' not in stack:
                continue
            for table in ('none', 'generic1'):
                for rq in MUTATE_REQUESTS:
                    for disp in ('sync', 'async', 'async-seq'):
                        if disp == 'async-seq' and not isinstance(REQUESTS.get(rq), list):
                            continue
                        yield dict(stack=stack, table=table, request=rq, disp=disp)


def run_case(case, rec):
    stack, tname, rq, disp = tuple(case['stack']), case['table'], case['request'], case['disp']
    events = []
    mbs = 1 if rq == 'oversize' else None
    d, log, table = build(disp, stack, tname, events, mbs=mbs, shapes=case.get('shapes', 'list'))
    text = '{"jsonrpc": ' if rq == 'unparsable' else json.dumps(REQUESTS[rq])
    # the same request is served twice by the same dispatcher: the second time must look exactly like the first
    # (nothing the user passed in - handler lists, middleware list - may have been altered by serving a request)
    out = None
    for rep in (1, 2):
        del events[:]
        del log[:]
        out = run_once(case, rec, d, log, table, events, text, stack, tname, rq, disp, mbs, rep)
        if not isinstance(out, tuple):
            break
    return out


def run_once(case, rec, d, log, table, events, text, stack, tname, rq, disp, mbs, rep):
    try:
        if disp.startswith('async'):
            loop = VLoop()
            try:
                r = loop.run(d.dispatch(text, context=CTX))
            finally:
                loop.close()
        else:
            r = d.dispatch(text, context=CTX)
    except Exception as e:   # noqa
        rec.violation('C12:dispatch raised %s' % type(e).__name__, case, expected='a response', observed='%s: %s' % (type(e).__name__, e))
        return 'raised'
    rec.transitions += 1
    problem, answer, codes = parse_return(r)
    if problem:
        rec.violation('C12:malformed response', case, expected='response document', observed=problem)
        return 'malformed'
    if rq == 'unparsable':
        want_answer, want_events, want_calls = dict(id=None, code=-32700, exact=None), [], []
    else:
        want_answer, want_events, want_calls = reference(REQUESTS[rq], stack, table, mbs)
        if case.get('shapes') == 'shared-mw':
            want_events = [(('mw', 'S') + e[2:]) if e[0] == 'mw' and stack[e[1]] == 'pass' else e for e in want_events]
    p = ref.match_answer(answer, want_answer)
    rejected = want_answer is ref.REJECT or rq == 'unparsable'
    kind = 'rejected document' if rejected else ('batch' if isinstance(REQUESTS.get(rq), list) else ('notification' if rq.endswith('-n') else 'call'))
    if case.get('shapes') in ('suspend', 'future-handlers'):
        # the elements interleave: compare the event sequence of each element (grouped by the element's id and the method the
        # outermost middleware saw) instead of one global sequence
        def per_element(evs):
            groups = {}
            for e in evs:
                key = repr(e[5] if e[0] == 'mw' else e[3])
                groups.setdefault(key, []).append(e)
            return groups
        got_g, want_g = per_element(events), per_element(want_events)
        # notifications share the key 'None': compare them as sorted multisets
        same = got_g.keys() == want_g.keys() and all((sorted(map(repr, got_g[k])) == sorted(map(repr, want_g[k]))) if k == 'None' else got_g[k] == want_g[k] for k in got_g)
        if same:
            events[:] = want_events
    if events != want_events:
        mw_got = [e for e in events if e[0] == 'mw']
        mw_want = [e for e in want_events if e[0] == 'mw']
        what = 'middleware events' if mw_got != mw_want else 'error handler events'
        rec.violation('C12:%s differ from the declared order (%s)%s' % (what, kind, '' if rep == 1 else ' when the request is served a second time'), case, expected=want_events, observed=list(events))
    elif p:
        rec.violation('C12:response differs from what the chain returned (%s):%s' % (kind, norm(p)), case, expected=want_answer, observed=answer, detail=p)
    elif not (ref.calls_eq(sorted(log, key=repr), sorted(want_calls, key=repr)) if case.get('shapes') in ('suspend', 'future-handlers') else ref.calls_eq(log, want_calls)):
        rec.violation('C12:method executions differ (%s)' % kind, case, expected=want_calls, observed=log)
    rec.states += 1
    rec.traces += 1
    if want_events:
        rec.nontrivial_n += 1
    rec.outcomes['%d events' % min(len(events), 12)] += 1
    return (json.dumps(answer, sort_keys=True, default=repr), repr(events))


def run(ctx):
    ctx.rule = ('E1: every middleware stack of 0..%d over {pass-through, short-circuit, request-rewriting, response-rewriting} x %d error '
                'handler tables (none, generic x1/x2, per-code x1/x2, both, handlers replacing the error by one with another code with '
                'and without handlers registered for the new code) x %d request kinds (success, each failure class, as call and '
                'notification, mixed batch, all-notification batch, null result, unparsable / invalid / empty / oversize documents) x '
                'sync/async; + stacks of 1..%d holding a middleware that appends to request.params IN PLACE x requests with and without a params member '
                '(every request is served twice: nothing may leak from one request into the next). state = one configuration x request; non-trivial = at least one middleware / handler event expected'
                % (ctx.pick(4, 5), len(HANDLER_TABLES), len(REQUESTS) + 1, ctx.pick(3, 4)))
    ctx.assumptions += ['user middlewares / handlers do not raise; a short-circuiting middleware\'s response is sent even for a notification']
    ctx.run_cases('C12', lambda: itertools.chain(gen_cases(ctx), gen_mutate_cases(ctx)), run_case, recheck_every=499)
    ctx.guard('events compared', ctx.rec.nontrivial_n > 1000, ctx.rec.nontrivial_n)


def replay(doc):
    from mc.core import Recorder, jdump
    rec = Recorder()
    run_case(doc['case'], rec)
    for v in rec.violations[:5]:
        print('VIOLATION-REPLAY signature=%s\n  expected=%s\n  observed=%s' % (v['signature'], jdump(v['expected'])[:500], jdump(v['observed'])[:500]))
    print('replayed: %d violation(s)' % len(rec.violations))
    return 1 if rec.violations else 0
