"""
C19 - tracers see every attempt begin and complete exactly once.
Mode E3: per-attempt outcome chosen by the transport / environment (response ok, response with error, transport
exception, undecodable body, body that is not a response, identity mismatch, BaseException) in every sequence a retry
strategy permits; oracle on the event log of instrumented tracers.
"""
import itertools

from pjrpc.common import BatchResponse, Response
from pjrpc.common.exceptions import BaseError, DeserializationError, IdentityError

from mc.core import explore_choices
from mc.harness import clientrun as cr

END_OUTCOMES = {'ok', 'ok_empty', 'notif_reply_listed', 'code_listed', 'code_listed2', 'code_unlisted', 'level_listed', 'level_listed2', 'level_unlisted'}


def gen_cases(ctx):
    N = ctx.pick(3, 4)
    for n in [None] + list(range(0, N + 1)):
        for excs in (('one', 'wide') if n is not None else ('none',)):
            for T in range(0, 4):
                for rk in ('single', 'batch', 'notification', 'notifbatch'):
                    for tctx in ('default', 'supplied'):
                        for kind in ('sync', 'async'):
                            for via in ('call', 'send', 'dunder', 'proxy'):
                                if via != 'call' and (T != 2 or tctx != 'supplied'):
                                    continue
                                if via in ('dunder', 'proxy') and rk not in ('single', 'batch'):
                                    continue
                                if n is not None and n >= 4 and (T not in (1, 3) or rk == 'notifbatch'):
                                    continue
                                for extra in ({}, dict(in_except=True), dict(tracer_kinds=['partial', 'full', 'chain'][:T])):
                                  if extra and (n not in (None, 1) or via != 'call' or T == 0):
                                      continue
                                  yield dict(extra, kind=kind, request=rk, via=via, tracers=T, ctx=tctx, c19=True,
                                           drop=['code_listed2', 'level_listed2', 'exc_listed2', 'exc_sub'],
                                           client_strategy=None if n is None else dict(
                                               attempts=n, codes='one', excs=excs, backoff=dict(family='periodic', interval=0)))


def viol(rec, cfg, choices, sig, expected, observed):
    rec.violation(sig, dict(cfg=cfg, choices=list(choices)), expected=expected, observed=observed)
    return 'bad:' + sig


def check_execution(cfg, choices, obs, rec):
    T = cfg['tracers']
    script = obs['script']
    ev = obs['events']
    names = [n for n, _ in script]
    if 'HORIZON' in names:
        return viol(rec, cfg, choices, 'C19:request sent more than n+1 times', 'bounded', names)
    A = len(script)
    # shape: per attempt, T begins then T completions, tracers in configuration order
    want = []
    for k, name in enumerate(names):
        comp = 'end' if name in END_OUTCOMES else 'error'
        kinds = cfg.get('tracer_kinds') or ['full'] * T
        # a tracer that does not override on_error sees nothing for a failed attempt (and never an 'end')
        want += [(t, 'begin', k) for t in range(T)] + [(t, comp, k) for t in range(T) if not (comp == 'error' and kinds[t] == 'partial')]
    got_shape = [(idx, what) for idx, what, _, _, _ in ev]
    if got_shape != [(t, w) for t, w, _ in want]:
        begins = sum(1 for _, w in got_shape if w == 'begin')
        comps = len(got_shape) - begins
        if begins != comps:
            sig = 'C19:begin and completion counts differ'
        elif sorted(got_shape) == sorted((t, w) for t, w, _ in want):
            sig = 'C19:events out of order (tracer order / begin before completion)'
        else:
            sig = 'C19:wrong completion kind or number of events'
        return viol(rec, cfg, choices, sig, [(t, w) for t, w, _ in want], got_shape)
    # per event payloads and contexts
    for (idx, what, tctx, req, payload), (t, w, k) in zip(ev, want):
        first_ctx = [e for e, w_ in zip(ev, want) if w_[2] == k][0][2]
        if tctx is not first_ctx:
            return viol(rec, cfg, choices, 'C19:trace context differs within one attempt', 'same object', (k, what))
        if cfg['ctx'] == 'supplied' and tctx is not obs['ctx']:
            return viol(rec, cfg, choices, 'C19:caller-supplied trace context not passed to the tracers', 'supplied object', repr(tctx))
        if obs['request'] is not None and req is not obs['request']:
            return viol(rec, cfg, choices, 'C19:tracer did not receive the request object', 'the request', repr(req))
        name, body = script[k]
        if what == 'error':
            if isinstance(body, BaseException):
                if payload is not body:
                    return viol(rec, cfg, choices, 'C19:on_error did not receive the raised exception object', repr(body), repr(payload))
            else:
                okcls = {'notjson': ValueError, 'notresp': DeserializationError, 'identity': IdentityError,
                         'unexpected_body': BaseError}[name]
                if not isinstance(payload, okcls):
                    return viol(rec, cfg, choices, 'C19:on_error payload has the wrong type', okcls.__name__, repr(payload))
        elif what == 'end':
            if cfg['request'] in ('notification', 'notifbatch'):
                if payload is not None:
                    return viol(rec, cfg, choices, 'C19:on_request_end of a notification got a response', None, repr(payload))
            else:
                s = cr.summarize_value(payload)
                if not isinstance(payload, (Response, BatchResponse)) or ('attempt %d' % k not in repr(s) and '"attempt": %d' % k not in repr(s)):
                    return viol(rec, cfg, choices, 'C19:on_request_end did not receive this attempt\'s response', 'response of attempt %d' % k, s)
    # the exception reaching the caller is the very object the last attempt raised
    kind, v = obs['outcome']
    last_name, last_body = script[-1]
    if isinstance(last_body, BaseException):
        if not (kind == 'exc' and v is last_body):
            return viol(rec, cfg, choices, 'C19:exception did not reach the caller unchanged', repr(last_body), (kind, repr(v)))
    elif last_name in ('notjson', 'notresp', 'identity', 'unexpected_body'):
        errs = [e[4] for e in ev if e[1] == 'error']
        last_err = errs[-1] if errs else None
        if kind != 'exc' or (last_err is not None and v is not last_err):
            return viol(rec, cfg, choices, 'C19:exception did not reach the caller unchanged', repr(last_err), (kind, repr(v)))
    return (A, T, tuple(sorted({n for n in names})))


def run_case(cfg, rec):
    leaves = 0
    summary = []
    for choices, obs in explore_choices(lambda env: cr.execute(cfg, env), max_exec=300000):
        r = check_execution(cfg, choices, obs, rec)
        leaves += 1
        rec.transitions += len(obs['events'])
        if isinstance(r, str):
            rec.outcomes[r] += 1
        else:
            rec.outcomes['attempts=%d tracers=%d' % r[:2]] += 1
            for n in r[2]:
                rec.counters['outcome ' + n] += 1
            if r[0] > 1 and r[1] > 0:
                rec.nontrivial_n += 1
        summary.append(cr.summarize(obs))
    rec.traces += leaves
    rec.states += leaves
    rec.counters['configs'] += 1
    return (leaves, hash(tuple(summary)))


def run(ctx):
    ctx.rule = ('E3: complete choice trees of per-attempt outcomes {ok, error response (listed / unlisted), transport exception '
                '(listed / unlisted), body that is not JSON, body that is not a response, identity mismatch, unexpected body for '
                'a notification, KeyboardInterrupt (sync) / CancelledError at the transport await (async)} for retry strategies '
                'of 0..%d attempts (none, narrow and catch-all exception sets) x 0..3 tracers x {single, batch, notification, '
                'all-notification batch} x default / caller-supplied trace context x sync/async x call/send. state = one '
                'complete execution; non-trivial = several attempts with at least one tracer' % ctx.pick(3, 4))
    ctx.assumptions += ['default trace contexts may differ between attempts; within one attempt all events share one object']
    ctx.run_cases('C19', lambda: gen_cases(ctx), run_case, recheck_every=29)
    c = ctx.rec.counters
    ctx.guard('every outcome kind was exercised', all(c.get('outcome ' + n, 0) > 0 for n in
                                                     ('ok', 'code_listed', 'exc_listed', 'notjson', 'notresp', 'identity', 'base', 'unexpected_body')), dict(c))
    ctx.guard('multi-attempt executions traced', ctx.rec.nontrivial_n > 100, ctx.rec.nontrivial_n)


def replay(doc):
    from mc.core import Env, Recorder, jdump
    rec = Recorder()
    cfg, choices = doc['case']['cfg'], doc['case']['choices']
    obs = cr.execute(cfg, Env(tuple(choices)))
    check_execution(cfg, choices, obs, rec)
    print('script:', [n for n, _ in obs['script']], 'events:', [(i, w) for i, w, _, _, _ in obs['events']])
    for v in rec.violations[:5]:
        print('VIOLATION-REPLAY signature=%s\n  expected=%s\n  observed=%s' % (v['signature'], jdump(v['expected'])[:300], jdump(v['observed'])[:300]))
    print('replayed: %d violation(s)' % len(rec.violations))
    return 1 if rec.violations else 0
