"""
C19 - tracers see every attempt begin and complete exactly once.
Mode E3: per-attempt outcome chosen by the transport / environment (response ok, response with error, transport
exception, undecodable body, body that is not a response, identity mismatch, BaseException) in every sequence a retry
strategy permits; oracle on the event log of instrumented tracers.
"""
import itertools

from pjrpc.common import BatchResponse, Response
from pjrpc.common.exceptions import BaseError, DeserializationError, IdentityError

from mc.core import explore_choices
from mc.harness import clientrun as cr

END_OUTCOMES = {'ok', 'ok_empty', 'notif_reply_listed', 'elem_error', 'code_listed', 'code_listed2', 'code_unlisted', 'level_listed', 'level_listed2', 'level_unlisted'}


def gen_cases(ctx):
    N = ctx.pick(3, 4)
    for n in [None] + list(range(0, N + 1)):
        for excs in (('one', 'wide') if n is not None else ('none',)):
            for T in range(0, 4):
                for rk in ('single', 'batch', 'notification', 'notifbatch'):
                    for tctx in ('default', 'supplied'):
                        for kind in ('sync', 'async'):
                            for via in ('call', 'send', 'dunder', 'proxy'):
                                if via != 'call' and (T != 2 or tctx != 'supplied'):
                                    continue
                                if via in ('dunder', 'proxy') and rk not in ('single', 'batch'):
                                    continue
                                if n is not None and n >= 4 and (T not in (1, 3) or rk == 'notifbatch'):
                                    continue
                                for extra in ({}, dict(in_except=True), dict(tracer_kinds=['partial', 'full', 'chain'][:T]), dict(tracer_kinds=['instance', 'late', 'full'][:T]), dict(tracer_kinds=['late', 'instance', 'chain'][:T]), dict(tracer_kinds=['logging', 'full', 'chain'][:T]), dict(same_exc=True), dict(unserialisable=True), dict(debug_log=True)):
                                  if extra and (n not in (None, 1, 2) or via != 'call' or T == 0):
                                      continue
                                  if extra and n == 2 and not extra.get('same_exc'):
                                      continue
                                  if extra.get('unserialisable') and rk not in ('single', 'batch'):
                                      continue
                                  yield dict(extra, kind=kind, request=rk, via=via, tracers=T, ctx=tctx, c19=True,
                                           drop=['code_listed2', 'level_listed2', 'exc_listed2', 'exc_sub'],
                                           client_strategy=None if n is None else dict(
                                               attempts=n, codes='one', excs=excs, backoff=dict(family='periodic', interval=0)))
    yield from gen_threads(ctx)
    for kind in ('sync', 'async'):
        for before in (1, 2):
            for outcome in ('ok', 'err'):
                yield dict(part='badtracer', kind=kind, before=before, outcome=outcome)
    for calls in (2, 3):
        for outcomes in itertools.product(('ok', 'exc'), repeat=calls):
            for tk in (['full'], ['logging', 'full'], ['full', 'logging', 'chain'], ['instance', 'logging']):
                for shared in (True, False, 'own'):
                    yield dict(part='overlap', calls=calls, outcomes=list(outcomes), tracer_kinds=tk, shared_ctx=shared)


def viol(rec, cfg, choices, sig, expected, observed):
    rec.violation(sig, dict(cfg=cfg, choices=list(choices)), expected=expected, observed=observed)
    return 'bad:' + sig


def check_execution(cfg, choices, obs, rec):
    T = cfg['tracers']
    script = obs['script']
    ev = obs['events']
    names = [n for n, _ in script]
    if 'HORIZON' in names:
        return viol(rec, cfg, choices, 'C19:request sent more than n+1 times', 'bounded', names)
    if cfg.get('unserialisable'):
        kinds_ = cfg.get('tracer_kinds') or ['full'] * T
        vis = [t for t in range(T) if kinds_[t] != 'logging']
        st_ = cfg.get('client_strategy')
        # a TypeError is a listed exception for the catch-all strategy: every retry is one more attempt (begin + error)
        tries = (st_['attempts'] + 1) if (st_ and st_['excs'] == 'wide') else 1
        want_u = ([(t, 'begin') for t in vis] + [(t, 'error') for t in vis if kinds_[t] != 'partial']) * tries
        got_u = [(idx, what) for idx, what, _, _, _ in ev]
        kind_, v_ = obs['outcome']
        if names or kind_ != 'exc' or not isinstance(v_, TypeError):
            return viol(rec, cfg, choices, 'C19:unserialisable parameters did not fail before the transport with a TypeError', 'TypeError, nothing sent', (names, kind_, repr(v_)))
        if got_u != want_u:
            return viol(rec, cfg, choices, 'C19:begin and completion counts differ' if len([1 for _, w in got_u if w == 'begin']) != len(got_u) - len([1 for _, w in got_u if w == 'begin'])
                        else 'C19:wrong completion kind or number of events', want_u, got_u)
        if any(not isinstance(p, TypeError) for _, w, _, _, p in ev if w == 'error') or (ev and [p for _, w, _, _, p in ev if w == 'error'][-1:] not in ([], [v_])):
            return viol(rec, cfg, choices, 'C19:on_error did not receive the raised exception object', repr(v_), 'another object')
        return (1, T, ('unserialisable',))
    A = len(script)
    # shape: per attempt, T begins then T completions, tracers in configuration order
    want = []
    for k, name in enumerate(names):
        comp = 'end' if name in END_OUTCOMES else 'error'
        kinds = cfg.get('tracer_kinds') or ['full'] * T
        # a tracer that does not override on_error sees nothing for a failed attempt (and never an 'end')
        vis = [t for t in range(T) if kinds[t] != 'logging']          # the library's LoggingTracer does not write to the event log
        want += [(t, 'begin', k) for t in vis] + [(t, comp, k) for t in vis if not (comp == 'error' and kinds[t] == 'partial')]
    got_shape = [(idx, what) for idx, what, _, _, _ in ev]
    if got_shape != [(t, w) for t, w, _ in want]:
        begins = sum(1 for _, w in got_shape if w == 'begin')
        comps = len(got_shape) - begins
        if begins != comps:
            sig = 'C19:begin and completion counts differ'
        elif sorted(got_shape) == sorted((t, w) for t, w, _ in want):
            sig = 'C19:events out of order (tracer order / begin before completion)'
        else:
            sig = 'C19:wrong completion kind or number of events'
        return viol(rec, cfg, choices, sig, [(t, w) for t, w, _ in want], got_shape)
    # per event payloads and contexts
    for (idx, what, tctx, req, payload), (t, w, k) in zip(ev, want):
        first_ctx = [e for e, w_ in zip(ev, want) if w_[2] == k][0][2]
        if tctx is not first_ctx:
            return viol(rec, cfg, choices, 'C19:trace context differs within one attempt', 'same object', (k, what))
        if cfg['ctx'] == 'supplied' and tctx is not obs['ctx']:
            return viol(rec, cfg, choices, 'C19:caller-supplied trace context not passed to the tracers', 'supplied object', repr(tctx))
        if obs['request'] is not None and req is not obs['request']:
            return viol(rec, cfg, choices, 'C19:tracer did not receive the request object', 'the request', repr(req))
        name, body = script[k]
        if what == 'error':
            if isinstance(body, BaseException):
                if payload is not body:
                    return viol(rec, cfg, choices, 'C19:on_error did not receive the raised exception object', repr(body), repr(payload))
            else:
                okcls = {'notjson': ValueError, 'notresp': DeserializationError, 'identity': IdentityError,
                         'unexpected_body': BaseError}[name]
                if not isinstance(payload, okcls):
                    return viol(rec, cfg, choices, 'C19:on_error payload has the wrong type', okcls.__name__, repr(payload))
        elif what == 'end':
            if cfg['request'] in ('notification', 'notifbatch'):
                if payload is not None:
                    return viol(rec, cfg, choices, 'C19:on_request_end of a notification got a response', None, repr(payload))
            else:
                s = cr.summarize_value(payload)
                if not isinstance(payload, (Response, BatchResponse)) or ('attempt %d' % k not in repr(s) and '"attempt": %d' % k not in repr(s)):
                    return viol(rec, cfg, choices, 'C19:on_request_end did not receive this attempt\'s response', 'response of attempt %d' % k, s)
    # the exception reaching the caller is the very object the last attempt raised
    kind, v = obs['outcome']
    last_name, last_body = script[-1]
    if isinstance(last_body, BaseException):
        if not (kind == 'exc' and v is last_body):
            return viol(rec, cfg, choices, 'C19:exception did not reach the caller unchanged', repr(last_body), (kind, repr(v)))
    elif last_name in ('notjson', 'notresp', 'identity', 'unexpected_body'):
        errs = [e[4] for e in ev if e[1] == 'error']
        last_err = errs[-1] if errs else None
        if kind != 'exc' or (last_err is not None and v is not last_err):
            return viol(rec, cfg, choices, 'C19:exception did not reach the caller unchanged', repr(last_err), (kind, repr(v)))
    return (A, T, tuple(sorted({n for n in names})))


def gen_threads(ctx):
    """E5: one synchronous client with tracers shared by two threads, each making one call; a thread switch is possible at
    every source line of pjrpc, schedules with <= 1 (quick) / 2 (thorough) preemptions"""
    K = 16
    for T in (1, 2):
        for outcomes in (('ok', 'ok'), ('ok', 'exc'), ('exc', 'exc'), ('err', 'ok')):
            budget = ctx.pick(1, 2)
            for k in range(K):
                yield dict(part='threads', tracers=T, outcomes=outcomes, budget=budget, shard=(k, K, 1))


def run_threads_case(cfg, rec):
    import os
    import json as _json
    import pjrpc
    from mc.harness.client import make_client
    from mc.threadsched import run_threads
    pj = os.path.dirname(os.path.abspath(pjrpc.__file__)) + os.sep
    sched = 0
    inter = 0

    def once(env):
        tlog = []
        tracers = [cr.LogTracer(i, tlog) for i in range(cfg['tracers'])]

        def responder(text, is_notif, kw):
            doc = _json.loads(text)
            which = cfg['outcomes'][doc['params'][0]]
            if which == 'exc':
                raise cr.E1('thread %d' % doc['params'][0])
            if which == 'err':
                return _json.dumps(dict(jsonrpc='2.0', id=doc['id'], error=dict(code=cr.C1, message='thread %d' % doc['params'][0])))
            return _json.dumps(dict(jsonrpc='2.0', id=doc['id'], result=doc['params'][0]))
        client = make_client('sync', responder, tracers=tracers)

        def body(i):
            return lambda: client.call('m', i)
        res, tr = run_threads([body(0), body(1)], env, [pj])
        return tlog, res, tr
    for choices, (tlog, res, tr) in explore_choices(once, budget=cfg['budget'], shard=tuple(cfg['shard']), max_exec=400000):
        sched += 1
        rec.transitions += tr.points
        inter += 1 if tr.interleaved else 0
        c = dict(cfg=cfg, choices=list(choices))
        for i in (0, 1):
            want_kind = {'ok': 'end', 'err': 'end', 'exc': 'error'}[cfg['outcomes'][i]]
            mine = [(idx, what) for idx, what, tctx, req, payload in tlog if req.params and list(req.params)[0] == i]
            want = [(t, 'begin') for t in range(cfg['tracers'])] + [(t, want_kind) for t in range(cfg['tracers'])]
            if mine != want:
                rec.violation('C19:threads:events of one thread\'s attempt are lost / duplicated when another thread uses the client at the same time',
                              c, expected=want, observed=mine)
                break
            k, v = res[i]
            ok = (k == 'ok' and v == i) if cfg['outcomes'][i] == 'ok' else (k == 'exc')
            if not ok:
                rec.violation('C19:threads:result / exception of a call differs under a thread schedule', c, expected=cfg['outcomes'][i], observed=(k, repr(v)))
                break
        # one attempt's events share one trace context, different attempts have different ones
        ctxs = {}
        for idx, what, tctx, req, payload in tlog:
            ctxs.setdefault(list(req.params)[0], set()).add(id(tctx))
        if any(len(v) != 1 for v in ctxs.values()) or (len(ctxs) == 2 and len(set.union(*ctxs.values())) != 2):
            rec.violation('C19:threads:trace contexts mixed up between concurrent attempts', c, expected='one context per attempt', observed={k: len(v) for k, v in ctxs.items()})
    rec.traces += sched
    rec.states += sched
    rec.nontrivial_n += inter
    rec.counters['thread schedules'] += sched
    rec.counters['thread schedules that interleaved'] += inter
    return (sched, inter)


def run_overlap_case(cfg, rec):
    """E4: two or three calls of one asynchronous client in flight at the same time (asyncio.gather) that carry the SAME caller-supplied
    trace context, every order in which the transport answers them; each attempt still gets its begin and its completion"""
    import asyncio
    import json as _json
    from types import SimpleNamespace
    from mc.harness.client import make_client
    from mc.vloop import VLoop
    n = cfg['calls']
    sched = 0

    def once(env):
        tlog = []
        tracers = [cr.TRACER_KINDS[k](i, tlog) for i, k in enumerate(cfg['tracer_kinds'])]

        async def responder(text, is_notif, kw):
            doc = _json.loads(text)
            i = doc['params'][0]
            await asyncio.get_running_loop().gate(('answer', i))
            if cfg['outcomes'][i] == 'exc':
                raise cr.E1('call %d' % i)
            return _json.dumps(dict(jsonrpc='2.0', id=doc['id'], result=i))
        client = make_client('async', responder, tracers=tracers)
        shared = SimpleNamespace(tag='shared') if cfg['shared_ctx'] is True else None
        own = [SimpleNamespace(tag='own %d' % i) for i in range(n)]
        tlog.append(('ctxs', shared, own))

        async def one(i):
            try:
                return ('ok', await client.call('m', i, _trace_ctx=own[i] if cfg['shared_ctx'] == 'own' else shared))
            except Exception as e:   # noqa
                return ('exc', type(e).__name__)

        async def go():
            return await asyncio.gather(*[one(i) for i in range(n)])
        loop = VLoop()
        try:
            out = loop.run(go(), choose=lambda labels: env.choose(('gate', tuple(sorted(labels))), len(labels)))
        finally:
            loop.close()
        return out, tlog
    for choices, (out, tlog) in explore_choices(once, max_exec=50000):
        sched += 1
        _, shared, own = tlog.pop(0)
        rec.transitions += len(tlog) + 1
        c = dict(cfg=cfg, choices=list(choices))
        # every event of one attempt carries that attempt's trace context: the caller's object when one was supplied, else one default
        # context per attempt that no other attempt in flight shares
        per_call = {}
        for idx, what, tctx, req, payload in tlog:
            per_call.setdefault(list(req.params)[0], []).append(tctx)
        bad = None
        for i, ctxs in per_call.items():
            if cfg['shared_ctx'] is True:
                if any(x is not shared for x in ctxs):
                    bad = (i, 'the caller\'s shared context object')
            elif cfg['shared_ctx'] == 'own':
                if any(x is not own[i] for x in ctxs):
                    bad = (i, 'the caller\'s context object of call %d' % i)
            elif len({id(x) for x in ctxs}) != 1:
                bad = (i, 'one default context for the whole attempt')
        if bad is None and cfg['shared_ctx'] is False and len({id(v[0]) for v in per_call.values()}) != len(per_call):
            bad = (-1, 'different default contexts for different attempts')
        if bad is not None:
            rec.violation('C19:overlap:an event of an attempt in flight carries another attempt\'s trace context', dict(c, call=bad[0]), expected=bad[1],
                          observed={i: [getattr(x, 'tag', 'default#%d' % (id(x) % 1000)) for x in v] for i, v in per_call.items()})
            continue
        vis = [t for t, k in enumerate(cfg['tracer_kinds']) if k != 'logging']
        for i in range(n):
            comp = 'end' if cfg['outcomes'][i] == 'ok' else 'error'
            want_out = ('ok', i) if cfg['outcomes'][i] == 'ok' else ('exc', 'E1')
            if tuple(out[i]) != want_out:
                rec.violation('C19:overlap:a call made while another call is in flight did not get its own outcome', dict(c, call=i), expected=want_out, observed=out[i])
                break
            mine = [(idx, what) for idx, what, tctx, req, payload in tlog if list(req.params)[0] == i]
            want = [(t, 'begin') for t in vis] + [(t, comp) for t in vis]
            if mine != want:
                rec.violation('C19:overlap:begin and completion counts differ for attempts in flight at the same time%s' % (
                    ' (shared trace context)' if cfg['shared_ctx'] else ''), dict(c, call=i), expected=want, observed=mine)
                break
    rec.traces += sched
    rec.states += sched
    rec.nontrivial_n += sched
    rec.counters['overlap schedules'] += sched
    return sched


def run_badtracer(cfg, rec):
    """the LAST tracer rejects the outcome by raising from its completion handler: the tracers before it have seen begin and ONE completion of
    the attempt, and nothing else (the attempt itself did not fail)"""
    import json as _json
    from mc.harness.client import make_client
    from mc.harness.client import run as drive
    from pjrpc.client.tracer import Tracer

    class Reject(Exception):
        pass

    tlog = []

    class Rejecting(Tracer):
        def on_request_begin(self, trace_context, request):
            tlog.append(('R', 'begin'))

        def on_request_end(self, trace_context, request, response):
            tlog.append(('R', 'end'))
            raise Reject('audit')

        def on_error(self, trace_context, request, error):
            tlog.append(('R', 'error'))
    tracers = [cr.LogTracer(i, tlog) for i in range(cfg['before'])] + [Rejecting()]

    def responder(text, is_notif, kw):
        doc = _json.loads(text)
        if cfg['outcome'] == 'err':
            return _json.dumps(dict(jsonrpc='2.0', id=doc['id'], error=dict(code=cr.C1, message='no')))
        return _json.dumps(dict(jsonrpc='2.0', id=doc['id'], result=1))
    client = make_client(cfg['kind'], responder, tracers=tracers)
    out = drive(cfg['kind'], lambda: client.send(cr.Request('m', [1], id=1)))
    rec.transitions += 1
    mine = [(e[0], e[1]) for e in tlog if e[0] != 'R']
    want = [(t, 'begin') for t in range(cfg['before'])] + [(t, 'end') for t in range(cfg['before'])]
    if mine != want:
        rec.violation('C19:begin and completion counts differ when a later tracer raises from its completion handler', cfg, expected=want, observed=[list(e[:2]) for e in tlog])
    elif not (out[0] == 'exc' and type(out[1]).__name__ == 'Reject'):
        rec.violation('C19:the exception a tracer raised did not reach the caller', cfg, expected='Reject', observed=repr(out)[:200])
    rec.states += 1
    rec.traces += 1
    rec.nontrivial_n += 1
    return tuple(mine)


def run_case(cfg, rec):
    if cfg.get('part') == 'badtracer':
        return run_badtracer(cfg, rec)
    if cfg.get('part') == 'overlap':
        return run_overlap_case(cfg, rec)
    if cfg.get('part') == 'threads':
        return run_threads_case(cfg, rec)
    leaves = 0
    summary = []
    for choices, obs in explore_choices(lambda env: cr.execute(cfg, env), max_exec=300000):
        r = check_execution(cfg, choices, obs, rec)
        leaves += 1
        rec.transitions += len(obs['events'])
        if isinstance(r, str):
            rec.outcomes[r] += 1
        else:
            rec.outcomes['attempts=%d tracers=%d' % r[:2]] += 1
            for n in r[2]:
                rec.counters['outcome ' + n] += 1
            if r[0] > 1 and r[1] > 0:
                rec.nontrivial_n += 1
        summary.append(cr.summarize(obs))
    rec.traces += leaves
    rec.states += leaves
    rec.counters['configs'] += 1
    return (leaves, hash(tuple(summary)))


def run(ctx):
    ctx.rule = ('E3: complete choice trees of per-attempt outcomes {ok, error response (listed / unlisted), transport exception '
                '(listed / unlisted), body that is not JSON, body that is not a response, identity mismatch, unexpected body for '
                'a notification, KeyboardInterrupt (sync) / CancelledError at the transport await (async)} for retry strategies '
                'of 0..%d attempts (none, narrow and catch-all exception sets) x 0..3 tracers x {single, batch, notification, '
                'all-notification batch} x default / caller-supplied trace context x sync/async x call/send. state = one '
                'complete execution; non-trivial = several attempts with at least one tracer' % ctx.pick(3, 4))
    ctx.assumptions += ['default trace contexts may differ between attempts; within one attempt all events share one object']
    ctx.run_cases('C19', lambda: gen_cases(ctx), run_case, recheck_every=29)
    c = ctx.rec.counters
    ctx.guard('every outcome kind was exercised', all(c.get('outcome ' + n, 0) > 0 for n in
                                                     ('ok', 'code_listed', 'exc_listed', 'notjson', 'notresp', 'identity', 'base', 'unexpected_body')), dict(c))
    ctx.guard('multi-attempt executions traced', ctx.rec.nontrivial_n > 100, ctx.rec.nontrivial_n)
    ctx.guard('threads really interleaved inside the client', c.get('thread schedules that interleaved', 0) > 50, dict(c))


def replay(doc):
    from mc.core import Env, Recorder, jdump
    rec = Recorder()
    cfg, choices = doc['case']['cfg'], doc['case']['choices']
    if cfg.get('part') == 'overlap':
        run_overlap_case(cfg, rec)
        print('replayed (all completion orders of the configuration): %d violation(s)' % len(rec.violations))
        return 1 if rec.violations else 0
    if cfg.get('part') == 'threads':
        cfg = dict(cfg, shard=(0, 1, 1), outcomes=tuple(cfg['outcomes']))
        run_threads_case(cfg, rec)
        print('replayed (all schedules of the configuration): %d violation(s)' % len(rec.violations))
        return 1 if rec.violations else 0
    obs = cr.execute(cfg, Env(tuple(choices)))
    check_execution(cfg, choices, obs, rec)
    print('script:', [n for n, _ in obs['script']], 'events:', [(i, w) for i, w, _, _, _ in obs['events']])
    for v in rec.violations[:5]:
        print('VIOLATION-REPLAY signature=%s\n  expected=%s\n  observed=%s' % (v['signature'], jdump(v['expected'])[:300], jdump(v['observed'])[:300]))
    print('replayed: %d violation(s)' % len(rec.violations))
    return 1 if rec.violations else 0
