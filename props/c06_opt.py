"""
C06, interpreter configuration: the same strictness under `python -O` (assert statements are stripped).  Run as a child process
by props/c06.py with -O; enumerates response / request / error / batch-level objects over a small member alphabet and prints, as one
JSON line, every structurally invalid message that was accepted and every exception other than the library's deserialisation error.
"""
import itertools
import json
import sys

sys.path.insert(0, sys.argv[1])          # the repository under test
sys.path.insert(0, sys.argv[2])          # /verif

import pjrpc  # noqa: E402
from pjrpc.common import BatchResponse, Request, Response  # noqa: E402
from pjrpc.common.exceptions import DeserializationError, IdentityError, JsonRpcError  # noqa: E402

from mc.refmodel import wire  # noqa: E402
from props.c06 import response_class  # noqa: E402

A = '__absent__'
VALS = [A, None, 1, 'a', '2.0', [], {'code': 1, 'message': 'm'}]


def mk(**kw):
    return {k: v for k, v in kw.items() if not (isinstance(v, str) and v == A)}


def try_(fn, doc):
    try:
        fn(doc)
        return 'ok'
    except (DeserializationError, IdentityError):
        return 'refused'
    except BaseException as e:   # noqa
        return 'other:%s' % type(e).__name__


bad = []
n = 0
for j, i, r, e in itertools.product(['2.0', '1.0', A], [A, None, 1, 'a', True], VALS, VALS):
    doc = mk(jsonrpc=j, id=i, result=r, error=e)
    cls = response_class(doc)
    for what, fn in (('response', Response.from_json), ('batch element', lambda d: BatchResponse.from_json([d]))):
        out = try_(fn, doc)
        n += 1
        if out.startswith('other') or (cls == 'invalid' and out == 'ok'):
            bad.append([what, doc, cls, out])
for j, i, m, p in itertools.product(['2.0', '1.0', A], [A, None, 1, 'a', True, 1.5], [A, 'm', '', 1, None], [A, [], {}, None, 1, 'x']):
    doc = mk(jsonrpc=j, id=i, method=m, params=p)
    cls = wire.request_object_class(doc)
    out = try_(Request.from_json, doc)
    n += 1
    if out.startswith('other') or (cls == 'invalid' and out == 'ok'):
        bad.append(['request', doc, cls, out])
for c, m, d in itertools.product([A, None, 1, '1', 1.5, True, -32601], [A, 'm', '', 1, None], [A, None, 1]):
    doc = mk(code=c, message=m, data=d)
    out = try_(JsonRpcError.from_json, doc)
    n += 1
    valid = isinstance(c, int) and not isinstance(c, bool) and isinstance(m, str) and not (isinstance(m, str) and m == A)
    if out.startswith('other') or (not valid and out == 'ok' and not isinstance(c, float)):
        bad.append(['error', doc, 'valid' if valid else 'invalid', out])
print(json.dumps(dict(optimised=not __debug__, evaluated=n, bad=bad[:20], n_bad=len(bad))))
