"""
C18 - HTTP integrations relay the dispatcher's verdict unchanged.
Mode E1, in-process (no sockets): {aiohttp, flask, werkzeug} x media types x bodies x status-by-error functions x path
prefixes.  Oracle: a twin dispatcher called directly with the same text (differential), the documented content types,
and cross-integration equivalence.
"""
import itertools
import json

import pjrpc
import pjrpc.server
from pjrpc.common import REQUEST_CONTENT_TYPES
from pjrpc.common.exceptions import JsonRpcError

from mc.harness.http import Integration
from mc.refmodel.server import typed_eq
from mc.vloop import VLoop

KINDS = ['aiohttp', 'flask', 'werkzeug', 'werkzeug-wsgi_app']
DOCUMENTED = list(REQUEST_CONTENT_TYPES)
MEDIA = []
for t in ['application/json', 'application/json-rpc', 'application/jsonrequest']:
    MEDIA += [t, t + '; charset=utf-8', t.upper(), t + ';charset=UTF-8; foo=bar', ' ' + t]
    MEDIA += [t + '; charset=us-ascii', t + '; charset=iso-8859-1', t + '; charset="utf-8"', t + '; version=2']
VENDOR = 'application/vnd.acme-rpc+json'
MEDIA += [VENDOR, VENDOR + '; charset=utf-8']
MEDIA += ['application/jsonx', 'application/json+rpc', 'text/plain', 'text/json', '', None, 'application/vnd.api+json',
          'application/*', 'json', 'application/x-www-form-urlencoded', 'multipart/form-data; boundary=x']


def call(method, params=None, id=1):
    o = {'jsonrpc': '2.0', 'method': method}
    if params is not None:
        o['params'] = params
    if id is not None:
        o['id'] = id
    return o


BODIES = {
    'call': json.dumps(call('ok', [2])).encode(), 'unknown': json.dumps(call('nope')).encode(),
    'perr': json.dumps(call('perr')).encode(), 'boom': json.dumps(call('boom')).encode(),
    'invalid': b'{"jsonrpc":"2.0","id":1}', 'parse': b'{"jsonrpc": ', 'empty': b'',
    # parameters that do not bind (-32602 with the validator's description as data), alone and inside a batch
    'nobind': json.dumps(call('ok', [1, 2, 3])).encode(), 'nobind-named': json.dumps(call('ok', {'zz': 1})).encode(),
    'mixed-nobind': json.dumps([call('ok', [1], 1), call('ok', {'zz': 1}, 2), call('ok', [1, 2], None)]).encode(),
    # all-ASCII requests whose strings carry an escaped unpaired surrogate (half an emoji): echoed back in the result / in an error
    'surrogate': b'{"jsonrpc":"2.0","id":"req-\\ud83d","method":"ok","params":["x\\ud83d"]}',
    'surrogate-unknown': b'{"jsonrpc":"2.0","id":1,"method":"nope\\ud83d"}',
    # a result that is JSON-encodable but not in JSON normal form (keys of several types)
    'rich': json.dumps(call('rich')).encode(),
    'batch': json.dumps([call('ok', [1], 1), call('ok', [2], 2)]).encode(),
    'mixed': json.dumps([call('ok', [1], 1), call('ok', [2], None), call('nope', None, 'x'), call('perr', None, 3)]).encode(),
    'notif': json.dumps(call('ok', [3], None)).encode(), 'notif-fail': json.dumps(call('boom', None, None)).encode(),
    'notif-batch': json.dumps([call('ok', [1], None), call('ok', [2], None)]).encode(),
    'non-utf8': b'{"jsonrpc":"2.0","id":1,"method":"ok","params":["\xff\xfe"]}', 'bom': b'\xef\xbb\xbf{"jsonrpc":"2.0","id":1,"method":"ok"}',
    'unicode': json.dumps(call('ok', ['é☃\U0001F600']), ensure_ascii=False).encode('utf-8'),
}
STATUS = {
    'default': None,
    'any-error-418': lambda codes: 418 if any(codes) else 200,
    'first-code-table': lambda codes: {0: 200, -32601: 404, -32700: 400, -32600: 422, 1234: 409}.get(codes[0], 500),
    'success-202': lambda codes: 202 if not any(codes) else 207,
    # legal status codes that have no name in http.HTTPStatus
    'odd-statuses': lambda codes: 299 if not any(codes) else 520,
}
PATHS = ['/rpc', '/api', '/api/v1']


def register(d, log, is_async):
    def ok(a=0):
        log.append(('ok', a))
        return {'a': a}

    def perr():
        log.append(('perr',))
        raise JsonRpcError(1234, 'custom', data=[1])

    def boom():
        log.append(('boom',))
        raise ValueError('S3CR3T')

    def rich():
        log.append(('rich',))
        return {1: 'one', 'total': 2, None: 3}
    for f in (ok, perr, boom, rich):
        if is_async:
            def mk(f):
                async def co(*a, **kw):
                    return f(*a, **kw)
                co.__name__ = f.__name__
                co.__signature__ = __import__('inspect').signature(f)
                return co
            d.add(mk(f), f.__name__)
        else:
            d.add(f, f.__name__)


def twin_answer(kind, text):
    """what the same kind of dispatcher returns for the text -> (parsed document | None, codes | None)"""
    log = []
    if kind == 'aiohttp':
        d = pjrpc.server.AsyncDispatcher()
        register(d, log, True)
        loop = VLoop()
        try:
            r = loop.run(d.dispatch(text))
        finally:
            loop.close()
    else:
        d = pjrpc.server.Dispatcher()
        register(d, log, False)
        r = d.dispatch(text)
    if r is None:
        return None, None, log
    return json.loads(r[0]), r[1], log


def accepted_media(ct):
    if ct is None:
        return False
    return ct.split(';')[0].strip().lower() in DOCUMENTED


ASCII_ONLY = ('unicode', 'non-utf8', 'bom')
# requests served one after the other by ONE long-lived application: (media type, body)
SEQ_ALPHABET = [('application/json', 'call'), ('text/plain', 'call'), (None, 'call'), ('application/json', 'parse'),
                ('application/json', 'non-utf8'), ('application/json; charset=utf-8', 'notif'), ('application/json-rpc', 'perr'),
                ('text/html', 'notif'), ('application/json', 'mixed'), ('application/json', 'nobind')]


def other_charset(ct):
    return bool(ct) and 'charset=' in ct.lower() and 'utf-8' not in ct.lower()


def gen_cases(ctx):
    # histories: every request must get the reply a fresh application gives for it, whatever was served before
    for n in (2, 3):
        for seq in itertools.product(range(len(SEQ_ALPHABET)), repeat=n):
            if n == 3 and ctx.quick and not (seq[0] in (1, 2, 4) or seq[1] in (1, 2, 4)):
                continue
            yield dict(part='seq', seq=list(seq), status='default', path='/api')
            if n == 2:
                yield dict(part='seq', seq=list(seq), status='first-code-table', path='/rpc')
            if n == 3 and all(SEQ_ALPHABET[i][0] and SEQ_ALPHABET[i][0].startswith('application/json') for i in seq):
                yield dict(part='seq', seq=list(seq), status='changing', path='/api')
    # the process-wide default content type changed by the user (pjrpc.set_default_content_type): replies carry it, the set of
    # accepted request types stays the documented one
    for dct in ('application/json-rpc', VENDOR):
        for mi, ct in enumerate(MEDIA):
            for bname in ('call', 'mixed', 'notif', 'parse', 'perr'):
                yield dict(status='default', path='/api', media=mi, body=bname, endpoint='', dct=dct)
    for order in ('ab', 'ba'):
        for sub in (False, True):
            for integration in ('flask', 'aiohttp', 'werkzeug'):
                if integration == 'werkzeug' and sub:
                    continue
                yield dict(part='two', integration=integration, order=order, sub=sub)
        yield dict(part='two', integration='aiohttp', order=order, sub=False, variant='sharedapp')
        for integration in ('flask', 'aiohttp'):
            yield dict(part='two', integration=integration, order=order, sub=False, variant='specmap')
    for integration in ('werkzeug', 'flask'):
        for kinds in (('call', 'call'), ('call', 'notif')):
            K = 8
            for k in range(K):
                yield dict(part='threads', integration=integration, kinds=list(kinds), budget=ctx.pick(1, 2), shard=(k, K, 1))
    # applications mounted under a url prefix of an outer application, a flask hook that reads the body first, chunked request bodies,
    # a main endpoint whose middlewares / handlers must not apply to added endpoints
    for mi in (0, 1, 13):
        for bname in ('call', 'mixed', 'notif', 'perr', 'unknown', 'parse', 'nobind'):
            for sname in ('default', 'first-code-table'):
                yield dict(status=sname, path='/api', media=mi, body=bname, endpoint='', mount='/mnt')
                yield dict(status=sname, path='/api', media=mi, body=bname, endpoint='/v2', mount='/mnt')
                yield dict(status=sname, path='/api', media=mi, body=bname, endpoint='/v2', endpoint_mode='container', mount='/mnt')
                yield dict(status=sname, path='/api', media=mi, body=bname, endpoint='', hook=True)
                yield dict(status=sname, path='/api', media=mi, body=bname, endpoint='/v2', hook=True)
                yield dict(status=sname, path='/api', media=mi, body=bname, endpoint='', chunked=True)
                yield dict(status=sname, path='/api', media=mi, body=bname, endpoint='/v2', main_mw=True)
    # other request headers (Accept and friends) play no part: the reply is the same as without them
    for accept in ('application/json-rpc', 'text/plain', 'text/html,application/xhtml+xml;q=0.9', '*/*', 'application/json', 'application/xml;q=0.9, */*;q=0.1'):
        for mi in (0, 1, 5):
            for bname in ('call', 'notif', 'perr', 'mixed', 'parse'):
                yield dict(status='default', path='/api', media=mi, body=bname, endpoint='', accept=accept)
    for sname in STATUS:
        for path in PATHS:
            for mi, ct in enumerate(MEDIA):
                for bname in BODIES:
                    yield dict(status=sname, path=path, media=mi, body=bname, endpoint='')
    # additional endpoints (aiohttp / flask add_endpoint): each has its own dispatcher, the main one must stay untouched
    for sname in STATUS:
        for mi, ct in enumerate(MEDIA):
            for bname in BODIES:
                yield dict(status=sname, path='/api', media=mi, body=bname, endpoint='/v2')
                if bname in ('call', 'mixed', 'notif', 'unknown') and mi % 2 == 0:
                    yield dict(status=sname, path='/api', media=mi, body=bname, endpoint='/v2', target='main')
                if bname in ('call', 'mixed', 'notif', 'parse', 'non-utf8') and mi % 3 == 0:
                    yield dict(status=sname, path='/api', media=mi, body=bname, endpoint='/v2', endpoint_mode='container')
                    yield dict(status=sname, path='/api', media=mi, body=bname, endpoint='/v2', endpoint_mode='child')


class ChangingStatus:
    """a status-by-error function whose answer changes from call to call (a table updated at run time): the integration has to ask
    it for every reply, exactly once, with that reply's codes"""
    def __init__(self):
        self.calls = []

    def __call__(self, codes):
        st = 200 + len(self.calls) % 5
        self.calls.append((tuple(codes), st))
        return st


def run_seq(case, rec):
    if case['status'] == 'changing':
        return run_seq_changing(case, rec)
    sfn = STATUS[case['status']]
    obs = []
    for kind in KINDS:
        log = []
        integ = Integration(kind, case['path'], status_by_error=sfn)
        register(integ.dispatcher, log, kind == 'aiohttp')
        for step, si in enumerate(case['seq']):
            ct, bname = SEQ_ALPHABET[si]
            del log[:]
            rep = integ.post(BODIES[bname], ct)
            flog = []
            fresh = Integration(kind, case['path'], status_by_error=sfn)
            register(fresh.dispatcher, flog, kind == 'aiohttp')
            frep = fresh.post(BODIES[bname], ct)
            rec.transitions += 2
            a, b = (rep.status, rep.content_type, rep.body, rep.raised), (frep.status, frep.content_type, frep.body, frep.raised)
            if a != b or log != flog:
                rec.violation('C18:%s:the reply to a request depends on the requests the application served before' % kind,
                              dict(case, integration=kind, step=step), expected=repr(frep), observed=repr(rep))
                break
            obs.append(rep.status)
        rec.outcomes['%s:sequence' % kind] += 1
    rec.states += 1
    rec.traces += 1
    rec.nontrivial_n += 1
    return tuple(obs)


def run_threads_case(case, rec):
    """E5: two threads POST to ONE application object (a threaded WSGI server) - a thread switch is possible at every source line of
    pjrpc; each request must be dispatched with its own context (the framework's request object) and get its own reply"""
    import os
    from mc.core import explore_choices
    from mc.threadsched import run_threads
    pj = os.path.dirname(os.path.abspath(pjrpc.__file__)) + os.sep
    kind = case['integration']
    sched = 0

    def once(env):
        integ = Integration(kind, '/api')

        if kind == 'flask':
            import flask

            def who(n):
                # flask hands no context over: the request of THIS http request is flask's request proxy
                return [flask.request.headers.get('X-Who'), n]
            integ.dispatcher.add(who, name='who')
        else:
            def who(ctx, n):
                # the context is the web framework's request object of THIS http request
                return [ctx.headers.get('X-Who'), n]
            integ.dispatcher.add(who, name='who', context='ctx')
        integ.ready()
        outs = [None, None]

        def body(i):
            def f():
                doc = {'jsonrpc': '2.0', 'method': 'who', 'params': [i]}
                if case['kinds'][i] == 'call':
                    doc['id'] = i
                r = integ.post(json.dumps(doc).encode(), 'application/json', extra_headers={'X-Who': 'caller-%d' % i})
                outs[i] = r
            return f
        res, tr = run_threads([body(0), body(1)], env, [pj])
        return outs, res, tr
    for choices, (outs, res, tr) in explore_choices(once, budget=case['budget'], shard=tuple(case['shard']), max_exec=400000):
        sched += 1
        rec.transitions += tr.points
        c = dict(case, choices=list(choices))
        for i in (0, 1):
            k, v = res[i]
            r = outs[i]
            if k == 'exc' or r is None or r.raised:
                rec.violation('C18:%s:threads:request failed under a thread schedule' % kind, c, expected='a reply', observed=repr(v if k == 'exc' else r))
                break
            if case['kinds'][i] == 'call':
                try:
                    got = json.loads(r.body.decode('utf-8')).get('result')
                except Exception:   # noqa
                    got = repr(r.body[:100])
                if got != ['caller-%d' % i, i]:
                    rec.violation('C18:%s:threads:a request was dispatched with another request\'s context / got another reply' % kind, dict(c, thread=i),
                                  expected=['caller-%d' % i, i], observed=got)
                    break
            elif r.status != 200 or r.body != b'':
                rec.violation('C18:%s:threads:notification not answered with an empty 200 under a thread schedule' % kind, c, expected='200, empty', observed=repr(r))
                break
    rec.traces += sched
    rec.states += sched
    rec.nontrivial_n += sched
    rec.counters['thread schedules'] += sched
    return sched


def run_seq_changing(case, rec):
    obs = []
    for kind in ('aiohttp', 'flask'):
        log = []
        fn = ChangingStatus()
        integ = Integration(kind, case['path'], status_by_error=fn)
        register(integ.dispatcher, log, kind == 'aiohttp')
        for step, si in enumerate(case['seq']):
            ct, bname = SEQ_ALPHABET[si]
            n0 = len(fn.calls)
            rep = integ.post(BODIES[bname], ct)
            rec.transitions += 1
            new = fn.calls[n0:]
            c = dict(case, integration=kind, step=step)
            if rep.raised:
                rec.violation('C18:%s:exception escaped the integration instead of an HTTP reply (sequence)' % kind, c, expected='a reply', observed=rep.raised)
                break
            if not accepted_media(ct) or bname == 'non-utf8':
                if new:
                    rec.violation('C18:%s:the status function was consulted for a refused request' % kind, c, expected=[], observed=new)
                    break
                continue
            want_doc, want_codes, _ = twin_answer(kind, BODIES[bname].decode('utf-8'))
            if want_codes is None:
                if new or rep.status != 200:
                    rec.violation('C18:%s:notification not answered with an empty 200' % kind, c, expected='200, status function not consulted', observed=(rep.status, new))
                    break
                continue
            if len(new) != 1 or tuple(new[0][0]) != tuple(want_codes) or rep.status != new[0][1]:
                rec.violation('C18:%s:the reply status is not what the configured status function returned for THIS reply' % kind, c,
                              expected='one call with codes %r, its return value as status' % (tuple(want_codes),), observed=dict(calls=new, status=rep.status))
                break
            obs.append(rep.status)
        rec.outcomes['%s:sequence' % kind] += 1
    rec.states += 1
    rec.traces += 1
    rec.nontrivial_n += 1
    return tuple(obs)


def run_two_extensions(case, rec):
    """two extension objects live in one process (two blueprints / two applications), both constructed before either is initialised:
    each serves its own methods on its own url"""
    import flask
    from aiohttp import web
    from pjrpc.server.integration import aiohttp as ia
    from pjrpc.server.integration import flask as ifl
    kind = case['integration']
    obs = []
    if kind == 'flask' and not case.get('variant'):
        a, b = ifl.JsonRPC('/a'), ifl.JsonRPC('/b')
        if case.get('sub'):
            a.add_endpoint('/x')
            b.add_endpoint('/y')
        for rpc, tag in ((a, 'A'), (b, 'B')):
            rpc.dispatcher.add((lambda t: (lambda: t))(tag), name='who')
            rpc.dispatcher.add((lambda t: (lambda: t))(tag), name='only_' + tag.lower())
        apps = {}
        for rpc, tag in ((a, 'A'), (b, 'B')) if case['order'] == 'ab' else ((b, 'B'), (a, 'A')):
            app = flask.Flask('two_' + tag)
            try:
                rpc.init_app(app)
            except Exception as e:   # noqa
                rec.violation('C18:flask:an extension object cannot be initialised while another one exists', dict(case, app=tag), expected='init_app succeeds', observed=repr(e)[:300])
                return ('init-failed',)
            apps[tag] = app.test_client()
        for tag, path in (('A', '/a'), ('B', '/b')):
            for method, want in (('who', tag), ('only_' + tag.lower(), tag), ('only_' + ('b' if tag == 'A' else 'a'), None)):
                r = apps[tag].post(path, data=json.dumps({'jsonrpc': '2.0', 'id': 1, 'method': method}), headers={'Content-Type': 'application/json'})
                rec.transitions += 1
                try:
                    doc = json.loads(r.get_data())
                except Exception:   # noqa
                    doc = {'status': r.status_code}
                ok = (doc.get('result') == want) if want else (doc.get('error', {}).get('code') == -32601)
                if not ok:
                    rec.violation('C18:flask:one extension object answers with another extension object\'s dispatcher', dict(case, app=tag, method=method),
                                  expected=want or -32601, observed=doc)
                obs.append(ok)
    elif case.get('variant') == 'sharedapp':
        # two pjrpc Applications built on ONE aiohttp application (the documented app= argument), each with its own status function
        from mc.harness.http import Integration
        shared = web.Application()
        fa = (lambda codes: 299 if not any(codes) else 520)
        first = (('/a', fa), ('/b', None)) if case['order'] == 'ab' else (('/b', None), ('/a', fa))
        integs = {}
        for path, f in first:
            integs[path] = Integration('aiohttp', path, status_by_error=f, main_kwargs=dict(app=shared))

            async def who(_t=path):
                return _t
            integs[path].dispatcher.add(who, name='who')
        shared.freeze()
        for path, integ in integs.items():
            integ._ready = True
            for method, want_status in (('who', 299 if path == '/a' else 200), ('nope', 520 if path == '/a' else 200)):
                r = integ.post(json.dumps({'jsonrpc': '2.0', 'id': 1, 'method': method}).encode(), 'application/json', path=path)
                rec.transitions += 1
                ok = r.status == want_status and not r.raised
                if not ok:
                    rec.violation('C18:aiohttp:the reply status is not what the status function configured for THIS application returns (two Applications on one aiohttp app)',
                                  dict(case, path=path, method=method), expected=want_status, observed=repr(r)[:300])
                obs.append(ok)
    elif case.get('variant') == 'specmap':
        # a specification whose error_http_status_map documents statuses is configured, no status function: the reply status is the default (200)
        from mc.harness.http import Integration
        from pjrpc.server.specs import openapi as _oa
        spec = _oa.OpenAPI(info=_oa.Info(title='t', version='1'), error_http_status_map={-32601: 404, -32602: 422, 1234: 409})
        integ = Integration(kind, '/a', spec=spec)
        if kind == 'aiohttp':
            async def add(a, b):
                return a + b
        else:
            def add(a, b):
                return a + b
        integ.dispatcher.add(add, name='add')
        for body in ({'jsonrpc': '2.0', 'id': 1, 'method': 'nope'}, {'jsonrpc': '2.0', 'id': 1, 'method': 'add', 'params': [1]}, {'jsonrpc': '2.0', 'id': 1, 'method': 'add', 'params': [1, 2]},
                     [{'jsonrpc': '2.0', 'id': 1, 'method': 'nope'}]):
            r = integ.post(json.dumps(body).encode(), 'application/json')
            rec.transitions += 1
            ok = r.status == 200 and not r.raised
            if not ok:
                rec.violation('C18:%s:the reply status is not the default although no status function is configured (a specification documents other statuses)' % kind,
                              dict(case, body=body), expected=200, observed=repr(r)[:300])
            obs.append(ok)
    else:
        from mc.harness.http import Integration
        A, B = Integration(kind, '/a'), Integration(kind, '/b')
        is_async = kind == 'aiohttp'

        def const(t):
            if is_async:
                async def f():
                    return t
            else:
                def f():
                    return t
            return f
        targets = []          # (integration, url, tag)
        for integ, tag in ((A, 'A'), (B, 'B')):
            integ.dispatcher.add(const(tag), name='who')
            integ.dispatcher.add(const(tag), name='only_' + tag.lower())
            targets.append((integ, '/' + tag.lower(), tag))
            if case.get('sub') and kind == 'aiohttp':
                sub = integ.rpc.add_endpoint('/x' if tag == 'A' else '/y')
                sub.add(const(tag + 'sub'), name='who')
                sub.add(const(tag + 'sub'), name='only_' + tag.lower() + 'sub')
                targets.append((integ, '/%s/%s' % (tag.lower(), 'x' if tag == 'A' else 'y'), tag + 'sub'))
        order = (A, B) if case['order'] == 'ab' else (B, A)
        for integ in order:
            integ.ready()
        for integ, url, tag in targets:
            other = {'A': 'b', 'B': 'a', 'Asub': 'bsub', 'Bsub': 'asub'}[tag]
            for method, want in (('who', tag), ('only_' + tag.lower(), tag), ('only_' + other, None), ('only_' + tag.lower()[0] + ('' if tag.endswith('sub') else 'sub'), None)):
                r = integ.post(json.dumps({'jsonrpc': '2.0', 'id': 1, 'method': method}).encode(), 'application/json', path=url)
                rec.transitions += 1
                try:
                    doc = json.loads(r.body.decode('utf-8'))
                except Exception:   # noqa
                    doc = {'reply': repr(r)[:200]}
                ok = (doc.get('result') == want) if want else (doc.get('error', {}).get('code') == -32601)
                if not ok:
                    rec.violation('C18:%s:one application object answers with another object\'s / endpoint\'s dispatcher' % kind, dict(case, url=url, method=method),
                                  expected=want or -32601, observed=doc)
                obs.append(ok)
    rec.states += 1
    rec.traces += 1
    rec.nontrivial_n += 1
    return tuple(obs)


def run_case(case, rec):
    from mc.harness.http import SetupFailed
    try:
        return _run_case(case, rec)
    except SetupFailed as e:
        rec.violation('C18:%s:the integration cannot be initialised' % case.get('integration'), case, expected='the application is set up', observed=str(e)[:300])
        return ('setup-failed',)


def _run_case(case, rec):
    if case.get('part') == 'two':
        return run_two_extensions(case, rec)
    if case.get('part') == 'threads':
        return run_threads_case(case, rec)
    if case.get('part') == 'seq':
        return run_seq(case, rec)
    if case.get('dct'):
        old = pjrpc.common.DEFAULT_CONTENT_TYPE
        pjrpc.common.set_default_content_type(case['dct'])
        try:
            return run_one(case, rec)
        finally:
            pjrpc.common.set_default_content_type(old)
    return run_one(case, rec)


def run_one(case, rec):
    ct = MEDIA[case['media']]
    body = BODIES[case['body']]
    sfn = STATUS[case['status']]
    if other_charset(ct) and case['body'] in ASCII_ONLY:
        # a declared charset other than UTF-8 with a non-ASCII body: how the body is to be decoded is outside the statement
        rec.states += 1
        rec.traces += 1
        return ('skipped',)
    replies = {}
    obs = []
    for kind in KINDS:
        log = []
        if case.get('endpoint') and kind.startswith('werkzeug'):
            continue
        if case.get('endpoint_mode') == 'child' and kind != 'aiohttp':
            continue
        main_kwargs = None
        if case.get('main_mw') and not kind.startswith('werkzeug'):
            # the MAIN endpoint is configured with a middleware that rewrites every result and a handler that rewrites every error;
            # an endpoint added with add_endpoint() has its own dispatcher and none of that
            from pjrpc.common import Response as _Resp, UnsetType as _Unset
            if kind == 'aiohttp':
                async def tag_mw(request, context, handler):
                    r = await handler(request, context)
                    return r if isinstance(r, _Unset) else _Resp(id=r.id, result='TAGGED-BY-MAIN')

                async def tag_eh(request, context, error):
                    return JsonRpcError(9999, 'rewritten by main')
            else:
                def tag_mw(request, context, handler):
                    r = handler(request, context)
                    return r if isinstance(r, _Unset) else _Resp(id=r.id, result='TAGGED-BY-MAIN')

                def tag_eh(request, context, error):
                    return JsonRpcError(9999, 'rewritten by main')
            main_kwargs = dict(middlewares=[tag_mw], error_handlers={None: [tag_eh]})
        integ = Integration(kind, case['path'], status_by_error=sfn, endpoint=case.get('endpoint', ''), endpoint_mode=case.get('endpoint_mode', 'plain'), target=case.get('target', 'endpoint'),
                            mount=case.get('mount') if not kind.startswith('werkzeug') else None, main_kwargs=main_kwargs,
                            body_reader_hook=bool(case.get('hook')) and kind == 'flask', chunked=bool(case.get('chunked')) and kind != 'aiohttp')
        register(integ.dispatcher, log, kind == 'aiohttp')
        if case.get('endpoint'):
            # the main endpoint serves nothing: a request routed to the wrong dispatcher shows up as 'method not found'
            pass
        rep = integ.post(body, ct, extra_headers=({'Accept': case['accept'], 'User-Agent': 'c18/1', 'X-Requested-With': 'x'} if case.get('accept') else None))
        rec.transitions += 1
        c = dict(case, integration=kind, content_type=ct)
        cls = 'documented type' + (' with parameters' if ct and ';' in ct else '') + (' in upper case' if ct and ct != ct.lower() else '')
        if rep.raised:
            rec.violation('C18:%s:exception escaped the integration instead of an HTTP reply (%s)' % (
                kind, cls if accepted_media(ct) else 'other media type'), c, expected='an HTTP response', observed=rep.raised)
            obs.append('raised')
            continue
        if not accepted_media(ct):
            if rep.status != 415:
                rec.violation('C18:%s:undocumented media type not refused with 415' % kind, c, expected=415, observed=repr(rep))
            elif log:
                rec.violation('C18:%s:method executed for a refused media type' % kind, c, expected=[], observed=log)
            obs.append(rep.status)
            rec.outcomes['%s:refused:%s' % (kind, rep.status)] += 1
            continue
        try:
            text = body.decode('utf-8')
        except UnicodeDecodeError:
            text = None
        if text is None:
            if rep.status != 400 or log:
                rec.violation('C18:%s:body that is not UTF-8 not answered with 400' % kind, c, expected=400, observed=repr(rep))
            obs.append(rep.status)
            rec.outcomes['%s:non-utf8:%s' % (kind, rep.status)] += 1
            continue
        want_doc, want_codes, want_log = twin_answer(kind, text)
        want_status = 200 if (want_codes is None or sfn is None or kind.startswith('werkzeug')) else sfn(want_codes)
        rec.nontrivial_n += 1
        if rep.status == 415:
            rec.violation('C18:%s:documented media type refused with 415 (%s)' % (kind, cls), c, expected=want_status, observed=repr(rep))
            obs.append(415)
            continue
        if want_doc is None:
            if rep.status != 200 or rep.body != b'':
                rec.violation('C18:%s:notification not answered with an empty 200' % kind, c, expected='200, empty body', observed=repr(rep))
        else:
            try:
                got_doc = json.loads(rep.body.decode('utf-8'))
            except Exception:   # noqa
                got_doc = '<not JSON: %r>' % rep.body[:100]
            if not typed_eq(got_doc, want_doc):
                rec.violation('C18:%s:reply body differs from the dispatcher\'s response document%s' % (
                    kind, (' (result with keys of several types, %s endpoint)' % ('additional' if case.get('endpoint') and case.get('target') != 'main' else 'main')) if case['body'] == 'rich' else ''),
                    c, expected=want_doc, observed=got_doc)
            elif rep.content_type != pjrpc.common.DEFAULT_CONTENT_TYPE:
                rec.violation('C18:%s:reply content type is not the JSON type' % kind, c, expected=pjrpc.common.DEFAULT_CONTENT_TYPE, observed=rep.content_type)
            elif rep.status != want_status:
                rec.violation('C18:%s:status differs from status_by_error(codes)' % kind, c, expected=want_status, observed=rep.status)
        if log != want_log:
            rec.violation('C18:%s:executions differ from the direct dispatch' % kind, c, expected=want_log, observed=log)
        replies[kind] = (rep.status, rep.body)
        obs.append((rep.status, rep.body[:60]))
        rec.outcomes['%s:relayed:%s' % (kind, rep.status)] += 1
    rec.states += 1
    rec.traces += 1
    return tuple(obs)


def run(ctx):
    ctx.rule = ('E1: integrations %r x %d media types (each documented type bare / with charset / upper case / extra parameter / leading '
                'space, near misses, unrelated, empty, missing) x %d bodies (call, unknown method, protocol error, exception, invalid, '
                'parse error, empty, batch, mixed batch, notification(s), non-UTF-8, BOM, unicode) x 4 status-by-error functions x path '
                'prefixes %r, plus an additional endpoint registered with add_endpoint (aiohttp, flask), all in-process. state = one request sent to all three integrations; non-trivial = documented media type '
                'with a decodable body (compared with the twin dispatcher)' % (KINDS, len(MEDIA), len(BODIES), PATHS))
    ctx.assumptions += ['aiohttp: a raised web.HTTPException is the response (aiohttp\'s contract); no real sockets / chunked bodies',
                        'werkzeug integration has no status_by_error option: 200 expected', 'non-UTF-8 bodies are expected to be refused with 400 '
                        '(what aiohttp does and what the flask / werkzeug code paths intend)']
    ctx.run_cases('C18', lambda: gen_cases(ctx), run_case, recheck_every=499)
    oc = ctx.rec.outcomes
    ctx.guard('relayed and refused replies from every integration', all(any(k.startswith(i + ':relayed') for k in oc) and
                                                                       any(k.startswith(i + ':refused') for k in oc) for i in KINDS), dict(oc))


def replay(doc):
    from mc.core import Recorder, jdump
    rec = Recorder()
    c = doc['case']
    run_case({k: c[k] for k in ('part', 'seq', 'status', 'path', 'media', 'body', 'endpoint', 'endpoint_mode', 'target', 'dct', 'accept', 'integration', 'kinds', 'budget', 'shard', 'mount', 'hook', 'chunked', 'main_mw', 'order', 'sub', 'variant') if k in c}, rec)
    for v in rec.violations[:6]:
        print('VIOLATION-REPLAY signature=%s\n  expected=%s\n  observed=%s' % (v['signature'], jdump(v['expected'])[:300], jdump(v['observed'])[:300]))
    print('replayed: %d violation(s)' % len(rec.violations))
    return 1 if rec.violations else 0
