"""
C06 - deserialisation is strict and total: only DeserializationError (IdentityError for duplicate ids in a
batch) escapes from_json; structurally invalid messages are never accepted; a failed append/extend leaves
the batch unchanged.
Mode E1 over the full product of member alphabets, stateless DFS over all append/extend histories
(no state merging, so hidden-state corruption shows up in the futures), lock-step with a list+set model.
"""
import itertools
import json

import pjrpc
import pjrpc.server          # (a process that also serves: whatever the server modules register is in effect)
from pjrpc.common import UNSET, BatchRequest, BatchResponse, Request, Response
from pjrpc.common.exceptions import DeserializationError, IdentityError, JsonRpcError

from mc.refmodel import wire
from mc.refmodel.server import typed_eq

A = '__absent__'
INF, NAN = '__inf__', '__nan__'          # markers for the non-finite floats json.loads produces for Infinity / NaN (revived when a case runs)
MEMBER = [A, None, True, False, 0, 1, -1, 1.0, 1.5, 2.0, INF, NAN, '', 'a', '2.0', '1.0', [], [1], {}, {'a': 1}]
MEMBER_S = [A, None, 1, 1.5, 2.0, 'a', '2.0', [], {'a': 1}]
ERRORS = [A, None, 1, 'e', [], {},
          {'code': 1, 'message': 'm'}, {'code': 1, 'message': 'm', 'data': None}, {'code': -32601, 'message': 'x', 'data': [1]},
          {'code': '1', 'message': 'm'}, {'code': 1}, {'message': 'm'}, {'code': 1.0, 'message': 'm'},
          {'code': 1.5, 'message': 'm'}, {'code': True, 'message': 'm'}, {'code': 0, 'message': ''},
          {'code': 1, 'message': 1}, {'code': None, 'message': 'm'}, {'code': 2 ** 70, 'message': 'm', 'extra': 1}]
NONOBJ = [None, True, False, 0, 1, 1.5, '', 'a', [], [1], ['a', 1]]


def revive(v):
    if isinstance(v, str):
        return float('inf') if v == INF else (float('nan') if v == NAN else v)
    if isinstance(v, list):
        return [revive(x) for x in v]
    if isinstance(v, dict):
        return {k: revive(x) for k, x in v.items()}
    return v


def absent(v):
    return isinstance(v, str) and v == A


def mk(**members):
    return {k: v for k, v in members.items() if not absent(v)}


# ---- validity by S2 ---------------------------------------------------------------------------------
def error_class(e):
    """valid / invalid / lenient for an error object"""
    if not isinstance(e, dict):
        return 'invalid'
    c, m = e.get('code', A), e.get('message', A)
    if not isinstance(m, str) or absent(m):
        return 'invalid'
    if isinstance(c, bool) or not isinstance(c, (int, float)):
        return 'invalid'
    if isinstance(c, float):
        return 'lenient' if (c == c and c not in (float('inf'), float('-inf')) and c == int(c)) else 'invalid'
    return 'valid'


def response_class(o):
    if not isinstance(o, dict):
        return 'invalid'
    if not isinstance(o.get('jsonrpc'), str) or o.get('jsonrpc') != '2.0':
        return 'invalid'
    lenient = False
    if 'id' not in o:
        lenient = True          # the statement does not list a missing response id as invalid
    else:
        if not wire.valid_id(o['id']):
            return 'invalid'
        if wire.is_fractional(o['id']):
            lenient = True
    if ('result' in o) == ('error' in o):
        return 'invalid'
    if 'error' in o:
        ec = error_class(o['error'])
        if ec == 'invalid':
            return 'invalid'
        lenient = lenient or ec == 'lenient'
    return 'lenient' if lenient else 'valid'


def outcome(fn, *a, **kw):
    try:
        return ('ok', fn(*a, **kw))
    except DeserializationError as e:
        return ('deser', e)
    except IdentityError as e:
        return ('identity', e)
    except BaseException as e:   # noqa
        return ('other', e)


def judge(rec, what, case, cls, out, allow_identity=False):
    """common verdict: totality + strictness"""
    kind, val = out
    rec.outcomes['%s:%s:%s' % (what, cls, kind)] += 1
    if kind == 'other':
        rec.violation('C06:%s:%s escaped from_json' % (what, type(val).__name__), case,
                      expected='message object or DeserializationError', observed='%s: %s' % (type(val).__name__, val))
        return False
    if kind == 'identity' and not allow_identity:
        rec.violation('C06:%s:IdentityError for a non-batch' % what, case, expected='DeserializationError', observed=str(val))
        return False
    if cls == 'invalid' and kind == 'ok':
        rec.violation('C06:%s:structurally invalid message accepted' % what, case, expected='DeserializationError',
                      observed=repr(val)[:200])
        return False
    if cls == 'valid' and kind != 'ok':
        rec.violation('C06:%s:valid message refused' % what, case, expected='message object',
                      observed='%s: %s' % (type(val).__name__, val))
        return False
    return kind == 'ok'


def same_error(err, e):
    if not typed_eq(err.code, e['code']) and not (isinstance(e['code'], float) and err.code == e['code']):
        return False
    if err.message != e['message']:
        return False
    if 'data' in e:
        return err.data is not UNSET and typed_eq(err.data, e['data'])
    return err.data is UNSET


# ---- E1 parts ----------------------------------------------------------------------------------------
def gen_cases(ctx):
    yield from gen_base(ctx, MEMBER, True)
    # the same inputs (smaller member alphabets, no histories) in a process that turns warnings into errors (python -W error / pytest
    # filterwarnings=error): a warning the library emits while deserialising would leave as an exception of another type
    for case in gen_base(ctx, MEMBER_S, False):
        yield dict(case, werr=True)


def gen_base(ctx, MEMBER, full):
    for j, i, m, p in itertools.product(MEMBER, MEMBER, MEMBER, MEMBER):
        yield dict(part='request', doc=mk(jsonrpc=j, id=i, method=m, params=p))
    for j, i, r, e in itertools.product(MEMBER, MEMBER, MEMBER, ERRORS):
        yield dict(part='response', doc=mk(jsonrpc=j, id=i, result=r, error=e))
    for c, m, d in itertools.product(MEMBER + [2 ** 70, -32601, -32602, -32603, -32600, -32700, -32000, -32000.0, -32000.5], MEMBER, MEMBER):
        yield dict(part='error', doc=mk(code=c, message=m, data=d))
    # members nested deeply (below what json.loads itself accepts): deserialisation never walks into params / result / data
    for depth in (100, 400, 600, 900, 1200, 1400) if full else ():
        yield dict(part='deep', depth=depth)
    for v in NONOBJ:
        for part in ('request', 'response', 'error', 'batchreq', 'batchresp'):
            if part.startswith('batch') and isinstance(v, list):
                continue
            yield dict(part=part, doc=v)
    # batches of <= 3 elements
    req_elems = [
        {'jsonrpc': '2.0', 'method': 'm', 'id': 1}, {'jsonrpc': '2.0', 'method': 'm', 'id': 2},
        {'jsonrpc': '2.0', 'method': 'm', 'id': '1'}, {'jsonrpc': '2.0', 'method': 'm'},
        {'jsonrpc': '2.0', 'method': 'm', 'id': None}, {'jsonrpc': '2.0', 'method': 'm', 'id': 0},
        {'jsonrpc': '2.0', 'method': 1, 'id': 3}, {'jsonrpc': '2.0', 'method': 'm', 'id': True}, 1, [], {},
    ]
    resp_elems = [
        {'jsonrpc': '2.0', 'id': 1, 'result': 1}, {'jsonrpc': '2.0', 'id': 2, 'result': None},
        {'jsonrpc': '2.0', 'id': '1', 'error': {'code': 1, 'message': 'm'}}, {'jsonrpc': '2.0', 'id': None, 'result': 0},
        {'jsonrpc': '2.0', 'id': 0, 'result': []}, {'jsonrpc': '2.0', 'id': 1, 'error': {'code': 0, 'message': ''}},
        {'jsonrpc': '2.0', 'id': 3}, {'jsonrpc': '2.0', 'id': 4, 'result': 0, 'error': {'code': 1, 'message': 'm'}},
        {'jsonrpc': '2.0', 'id': True, 'result': 1}, 1, [], {},
    ]
    for n in range(0, 4):
        for idx in itertools.product(range(len(req_elems)), repeat=n):
            yield dict(part='batchreq', doc=[req_elems[i] for i in idx])
        for idx in itertools.product(range(len(resp_elems)), repeat=n):
            yield dict(part='batchresp', doc=[resp_elems[i] for i in idx])
    # several ids repeated in one batch, of one type and of different types
    for ids in ([1, 'a', 1, 'a'], [1, '1', 1, '1'], [0, '', 0, ''], [2, 1, 2, 1], ['b', 'a', 'b', 'a'], [1, 1, 1, 'x', 'x']):
        yield dict(part='batchreq', doc=[{'jsonrpc': '2.0', 'method': 'm', 'id': i} for i in ids])
        yield dict(part='batchresp', doc=[{'jsonrpc': '2.0', 'id': i, 'result': 1} for i in ids])
    # batch-level error objects
    for j, i, e, r in itertools.product(['2.0', '1.0', A, 2], [A, None, 1, 0], ERRORS, [A, None, 1]):
        yield dict(part='batchresp', doc=mk(jsonrpc=j, id=i, error=e, result=r))
    # histories
    for cls in ('BatchRequest', 'BatchResponse') if full else ():
        for strict in (True, False):
            for first in range(len(HIST_OPS)):
                yield dict(part='history', cls=cls, strict=strict, first=first, budget=ctx.pick(5, 6))


def run_request(case, rec):
    doc = case['doc']
    cls = wire.request_object_class(doc)
    out = outcome(Request.from_json, doc)
    if judge(rec, 'request', case, cls, out):
        r = out[1]
        exp_id = doc.get('id')
        ok = (r.method == doc['method'] and typed_eq(r.id, exp_id) or (isinstance(exp_id, float) and r.id == exp_id)) \
            and typed_eq(r.params or None, doc.get('params') or None) and r.is_notification == (exp_id is None)
        if not ok:
            rec.violation('C06:request:fields differ from the input', case, expected=doc, observed=repr(r))
        rec.nontrivial_n += 1


def run_response(case, rec):
    doc = case['doc']
    cls = response_class(doc)
    out = outcome(Response.from_json, doc)
    if judge(rec, 'response', case, cls, out):
        r = out[1]
        ok = typed_eq(r.id, doc.get('id')) or (isinstance(doc.get('id'), float) and r.id == doc.get('id'))
        if 'result' in doc:
            ok = ok and r.is_success and not r.is_error and typed_eq(r.result, doc['result']) and r.error is UNSET
        else:
            ok = ok and r.is_error and not r.is_success and isinstance(r.error, JsonRpcError) and same_error(r.error, doc['error'])
            if ok:
                try:
                    r.result
                    ok = False
                except JsonRpcError as e:
                    ok = e is r.error
        if not ok:
            rec.violation('C06:response:fields differ from the input', case, expected=doc, observed=repr(r))
        rec.nontrivial_n += 1


def run_error(case, rec):
    from pjrpc.common import exceptions as exc
    from mc.harness.methods import registered_error
    doc = case['doc']
    cls = error_class(doc)
    out = outcome(JsonRpcError.from_json, doc)
    if judge(rec, 'error', case, cls, out):
        if not same_error(out[1], doc):
            rec.violation('C06:error:fields differ from the input', case, expected=doc, observed=repr(out[1]))
        rec.nontrivial_n += 1
    # the typed entry points: from_json called on a class that has a code of its own (True == 1, False == 0, -32000.0 == -32000)
    for typed in (exc.ServerError, exc.MethodNotFoundError, registered_error(1), registered_error(0)):
        out = outcome(typed.from_json, doc)
        rec.transitions += 1
        if judge(rec, 'error', dict(case, entry=typed.__name__ + '.from_json'), cls, out):
            if not same_error(out[1], doc):
                rec.violation('C06:error:fields differ from the input', dict(case, entry=typed.__name__ + '.from_json'), expected=doc, observed=repr(out[1]))
    # ... and a response carrying the error, deserialised with such a class as error_cls
    for typed in (exc.ServerError, registered_error(1)):
        out = outcome(lambda d: Response.from_json(d, error_cls=typed), {'jsonrpc': '2.0', 'id': 1, 'error': doc})
        rec.transitions += 1
        judge(rec, 'response', dict(case, entry='Response.from_json(error_cls=%s)' % typed.__name__), cls, out)


def ids_dup(ids):
    seen = []
    for i in ids:
        if i is None:
            continue
        if any(typed_eq(i, s) for s in seen):
            return True
        seen.append(i)
    return False


def run_batchreq(case, rec):
    doc = case['doc']
    if not isinstance(doc, list) or not doc:
        cls = 'invalid'
    else:
        cl = [wire.request_object_class(e) for e in doc]
        cls = 'invalid' if 'invalid' in cl else ('lenient' if 'lenient' in cl else 'valid')
    dup = cls != 'invalid' and ids_dup([e.get('id') for e in doc])
    out = outcome(BatchRequest.from_json, doc)
    if dup:
        rec.outcomes['batchreq:dup:%s' % out[0]] += 1
        if out[0] != 'identity':
            rec.violation('C06:batchreq:duplicate ids not refused with IdentityError', case, expected='IdentityError',
                          observed=repr(out[1])[:200])
        return
    if judge(rec, 'batchreq', case, cls, out, allow_identity=False):
        b = out[1]
        if len(b) != len(doc) or not all(typed_eq(r.id, e.get('id')) and r.method == e['method'] for r, e in zip(b, doc)):
            rec.violation('C06:batchreq:elements differ from the input', case, expected=doc, observed=repr(b))
        rec.nontrivial_n += 1


def run_batchresp(case, rec):
    doc = case['doc']
    if isinstance(doc, dict):
        # batch-level error object: jsonrpc 2.0, id null/absent, error valid, no result
        c = response_class(doc)
        if c != 'invalid' and doc.get('id') is not None:
            c = 'invalid-as-batch'   # a single response with an id is not a batch response
        out = outcome(BatchResponse.from_json, doc)
        rec.outcomes['batchresp-level:%s:%s' % (c, out[0])] += 1
        if out[0] == 'other':
            rec.violation('C06:batchresp:%s escaped from_json' % type(out[1]).__name__, case,
                          expected='BatchResponse or DeserializationError', observed=repr(out[1]))
        elif c in ('invalid', 'invalid-as-batch') and out[0] == 'ok':
            rec.violation('C06:batchresp:invalid batch-level object accepted', case, expected='DeserializationError',
                          observed=repr(out[1]))
        elif c == 'valid' and 'error' in doc and out[0] != 'ok':
            rec.violation('C06:batchresp:valid batch-level error refused', case, expected='BatchResponse', observed=repr(out[1]))
        elif out[0] == 'ok':
            b = out[1]
            if not (b.is_error and same_error(b.error, doc['error']) and len(b) == 0):
                rec.violation('C06:batchresp:batch-level error differs', case, expected=doc, observed=repr(b))
            rec.nontrivial_n += 1
        return
    if not isinstance(doc, list):
        cls = 'invalid'
    else:
        cl = [response_class(e) for e in doc]
        cls = 'invalid' if 'invalid' in cl else ('lenient' if 'lenient' in cl else 'valid')
        # an empty response array: the statement only forbids an empty batch *request*
        if not doc:
            cls = 'lenient'
    dup = cls != 'invalid' and ids_dup([e.get('id') for e in doc])
    out = outcome(BatchResponse.from_json, doc)
    if dup:
        rec.outcomes['batchresp:dup:%s' % out[0]] += 1
        if out[0] != 'identity':
            rec.violation('C06:batchresp:duplicate ids not refused with IdentityError', case, expected='IdentityError',
                          observed=repr(out[1])[:200])
        return
    if judge(rec, 'batchresp', case, cls, out):
        b = out[1]
        if len(b) != len(doc) or not all(typed_eq(r.id, e.get('id')) for r, e in zip(b, doc)):
            rec.violation('C06:batchresp:elements differ from the input', case, expected=doc, observed=repr(b))
        rec.nontrivial_n += 1


# ---- histories -----------------------------------------------------------------------------------------
HID = [1, 2, '1', 0, None]
HIST_OPS = [('append', (i,)) for i in HID] + [('extend', ())] + [('extend', (i,)) for i in HID] + \
           [('extend', (i, j)) for i in HID for j in HID]


def new_msg(cls, id):
    if cls == 'BatchRequest':
        return Request('m', [id], id=id)
    if id in ERR_IDS and not isinstance(id, bool):
        return Response(id=id, error=JsonRpcError(7, 'e%s' % id))       # responses with these ids carry an error
    return Response(id=id, result=[id])


ERR_IDS = (2, '1')


def ref_apply(model, strict, op, ids):
    """model: list of ids. -> (new model, failed?)"""
    if strict:
        seen = [i for i in model if i is not None]
        for i in ids:
            if i is None:
                continue
            if any(typed_eq(i, s) for s in seen):
                return model, True
            seen.append(i)
    return model + list(ids), False


def view(batch):
    js = batch.to_json()
    return ([m.id for m in batch], len(batch), [e.get('id', '<none>') for e in js], [batch[i].id for i in range(len(batch))])


def run_history(case, rec):
    cls = BatchRequest if case['cls'] == 'BatchRequest' else BatchResponse
    strict = case['strict']
    budget = case['budget']
    stack = [(case['first'],)]
    while stack:
        hist = stack.pop()
        # rebuild from scratch (fresh real object), replaying the history in lock-step with the model
        batch = cls(strict=strict)
        model = []
        used = 0
        bad = None
        for step, opi in enumerate(hist):
            op, ids = HIST_OPS[opi]
            used += max(1, len(ids))
            msgs = [new_msg(case['cls'], i) for i in ids]
            model2, fail = ref_apply(model, strict, op, ids)
            try:
                if op == 'append':
                    batch.append(msgs[0])
                else:
                    batch.extend(msgs)
                got = 'ok'
            except IdentityError:
                got = 'identity'
            except BaseException as e:   # noqa
                got = type(e).__name__
            rec.transitions += 1
            if got != ('identity' if fail else 'ok'):
                bad = ('C06:history:%s %s outcome' % (case['cls'], op), step, 'identity' if fail else 'ok', got)
                break
            model = model2
            v = view(batch)
            if not (typed_eq(v[0], model) and v[1] == len(model) and typed_eq(v[2], [i for i in model]
                    if case['cls'] == 'BatchResponse' else v[2]) and typed_eq(v[3], model)):
                bad = ('C06:history:%s contents after %s %s' % (case['cls'], 'failed' if fail else 'successful', op),
                       step, model, v)
                break
            if case['cls'] == 'BatchRequest' and not typed_eq(v[2], ['<none>' if i is None else i for i in model]):
                bad = ('C06:history:BatchRequest wire form', step, model, v)
                break
            # derived properties follow the contents (and nothing else - not the messages that were refused)
            if case['cls'] == 'BatchRequest':
                derived, want_d = batch.is_notification, all(i is None for i in model)
            else:
                derived, want_d = batch.has_error, any((i in ERR_IDS and type(i) in (int, str)) for i in model)
            if derived != want_d:
                bad = ('C06:history:%s %s does not follow the contents after a %s %s' % (
                    case['cls'], 'is_notification' if case['cls'] == 'BatchRequest' else 'has_error', 'failed' if fail else 'successful', op), step, want_d, derived)
                break
        rec.traces += 1
        rec.state_set.add(hash((case['cls'], strict, hist)))
        if bad:
            rec.violation(bad[0], dict(case, history=[HIST_OPS[i] for i in hist], failing_step=bad[1]),
                          expected=bad[2], observed=bad[3])
            continue
        if used < budget:
            for nxt in range(len(HIST_OPS) - 1, -1, -1):
                if used + max(1, len(HIST_OPS[nxt][1])) <= budget:
                    stack.append(hist + (nxt,))
    # constructor form: cls(*msgs, strict=) is equivalent to extend on an empty batch
    for ids in itertools.product(HID, repeat=2):
        _, fail = ref_apply([], strict, 'extend', ids)
        try:
            b = cls(*[new_msg(case['cls'], i) for i in ids], strict=strict)
            got = 'ok'
        except IdentityError:
            got = 'identity'
        if got != ('identity' if fail else 'ok'):
            rec.violation('C06:history:constructor outcome', dict(case, ids=ids), expected='identity' if fail else 'ok', observed=got)


def run_deep(case, rec):
    import json as _json
    for o, c in (('[', ']'), ('{"a":', '}')):
        nest = _json.loads(o * case['depth'] + '1' + c * case['depth'])
        docs = [('request', Request.from_json, {'jsonrpc': '2.0', 'method': 'm', 'params': [nest], 'id': 1}),
                ('request', Request.from_json, {'jsonrpc': '2.0', 'method': 'm', 'params': {'k': nest}}),
                ('response', Response.from_json, {'jsonrpc': '2.0', 'id': 1, 'result': nest}),
                ('response', Response.from_json, {'jsonrpc': '2.0', 'id': 1, 'error': {'code': 1, 'message': 'm', 'data': nest}}),
                ('error', JsonRpcError.from_json, {'code': 1, 'message': 'm', 'data': nest}),
                ('batchreq', BatchRequest.from_json, [{'jsonrpc': '2.0', 'method': 'm', 'params': [nest], 'id': 1}, {'jsonrpc': '2.0', 'method': 'n'}]),
                ('batchresp', BatchResponse.from_json, [{'jsonrpc': '2.0', 'id': 1, 'result': nest}])]
        for what, fn, doc in docs:
            out = outcome(fn, doc)
            rec.transitions += 1
            rec.outcomes['%s:deep:%s' % (what, out[0])] += 1
            if out[0] != 'ok':
                rec.violation('C06:%s:%s for a valid message with deeply nested members' % (what, 'DeserializationError' if out[0] == 'deser' else type(out[1]).__name__ + ' escaped from_json'),
                              dict(case, kind=o), expected='message object', observed='%s: %s' % (type(out[1]).__name__, str(out[1])[:100]))
    rec.nontrivial_n += 1


RUN = dict(request=run_request, response=run_response, error=run_error, batchreq=run_batchreq,
           batchresp=run_batchresp, history=run_history, deep=run_deep)


def run_case(case, rec):
    from mc.core import Recorder
    r = Recorder()
    if 'doc' in case:
        case = dict(case, doc=revive(case['doc']))
    if case.get('werr'):
        import warnings
        with warnings.catch_warnings():
            warnings.simplefilter('error')
            RUN[case['part']](case, r)
    else:
        RUN[case['part']](case, r)
    if case['part'] != 'history':
        r.states += 1
        r.transitions += 1
        r.traces += 1
    r.counters[case['part']] += 1
    obs = (sorted(r.viol_count.items()), sorted(r.outcomes.items()), r.transitions, r.traces)
    rec.merge(r)
    return obs


def run_optimised(ctx):
    """the interpreter configuration as a dimension: a child `python -O` (asserts stripped) deserialises requests / responses / errors over
    a small member alphabet; strictness and totality must not rest on assert statements"""
    import os
    import subprocess
    import sys
    repo = os.path.dirname(os.path.dirname(os.path.abspath(pjrpc.__file__)))
    verif = os.path.dirname(os.path.dirname(os.path.abspath(__file__)))
    r = subprocess.run([sys.executable, '-O', os.path.join(verif, 'props', 'c06_opt.py'), repo, verif], stdout=subprocess.PIPE, stderr=subprocess.PIPE, text=True, timeout=600)
    try:
        out = json.loads(r.stdout.strip().splitlines()[-1])
    except Exception:   # noqa
        from mc.core import HarnessError
        raise HarnessError('the python -O child did not report: %s' % (r.stderr[-400:] or r.stdout[-400:]))
    ctx.guard('the child interpreter ran with assertions stripped', out.get('optimised') is True and out.get('evaluated', 0) > 500, out)
    ctx.rec.transitions += out['evaluated']
    ctx.rec.counters['messages deserialised under python -O'] += out['evaluated']
    for what, doc, cls, got in out['bad']:
        ctx.rec.violation('C06:%s:%s under python -O' % (what, 'structurally invalid message accepted' if got == 'ok' else got.replace('other:', '') + ' escaped from_json'),
                          dict(part='optimised', what=what, doc=doc), expected='DeserializationError' if cls == 'invalid' else 'message object or DeserializationError', observed=got)


def run(ctx):
    ctx.rule = ('E1: request objects = product of %d-value member alphabets for jsonrpc x id x method x params; response '
                'objects = jsonrpc x id x result x %d error shapes; error objects = code x message x data; every non-object '
                'input; batches of <= 3 elements over 11/12 element shapes; batch-level error objects; histories = every '
                'append/extend sequence with <= %d ids attempted in total over ids %r, strict on/off, both batch classes, '
                'explored WITHOUT merging states (each history replayed on a fresh object in lock-step with a list+set '
                'model). non-trivial = message accepted and compared field-wise' % (len(MEMBER), len(ERRORS), ctx.pick(5, 6), HID))
    ctx.assumptions += ['L2: fractional ids / integral-float codes may be accepted or refused; a missing response id and an '
                        'empty response array are not listed as invalid by the statement (either outcome accepted)']
    ctx.run_cases('C06', lambda: gen_cases(ctx), run_case, recheck_every=4001)
    run_optimised(ctx)
    oc = ctx.rec.outcomes
    ctx.guard('valid accepted, invalid refused, duplicates refused',
              oc.get('request:valid:ok', 0) > 0 and oc.get('request:invalid:deser', 0) > 0 and
              oc.get('response:valid:ok', 0) > 0 and oc.get('batchreq:dup:identity', 0) > 0, dict(oc))
    ctx.guard('histories explored', len(ctx.rec.state_set) > 1000, len(ctx.rec.state_set))


def replay(doc):
    from mc.core import Recorder, jdump
    rec = Recorder()
    case = {k: v for k, v in doc['case'].items() if k not in ('history', 'failing_step')}
    run_case(case, rec)
    for v in rec.violations[:5]:
        print('VIOLATION-REPLAY signature=%s\n  case=%s\n  expected=%s\n  observed=%s' % (
            v['signature'], jdump(v['case'])[:300], jdump(v['expected'])[:300], jdump(v['observed'])[:300]))
    print('replayed: %d violation(s)' % len(rec.violations))
    return 1 if rec.violations else 0
