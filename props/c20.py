"""
C20 - the pytest mocker answers as configured: round-robin, once, recorded.
Mode E2: level-synchronous breadth-first search over add / replace / remove / call / batch histories on the real
PjRpcMocker (patching the transport of real sync and async clients), in lock-step with a dict-of-lists reference model.
Canonical state = reference state + the shape of the mocker's patch table (extra discriminator only, read through
getattr); every transition's observable answer, and the recorded calls, are compared with the reference.
"""
import itertools
import json

import pjrpc
from pjrpc.client.integrations.pytest import PjRpcMocker
from pjrpc.common import BatchRequest, BatchResponse, Request, Response
from pjrpc.common.exceptions import JsonRpcError

from mc.core import HarnessError, Recorder, fork_map
from mc.harness import mockclient
from mc.vloop import VLoop

EPS = ['http://e0', 'http://e1']
METHODS = ['m0', 'm1']

_MOCKERS = {}


def mocker_for(kind, passthrough):
    k = (kind, passthrough)
    if k not in _MOCKERS:
        cls = {('sync', False): 'SyncRefuse', ('sync', True): 'SyncPass', ('async', False): 'AsyncRefuse', ('async', True): 'AsyncPass'}[k]
        m = PjRpcMocker(target='mc.harness.mockclient.%s._request' % cls, passthrough=passthrough)
        m.start()
        _MOCKERS[k] = (m, getattr(mockclient, cls))
    return _MOCKERS[k]


# ---- operations -------------------------------------------------------------------------------------------------------
def static_ops():
    ops = []
    for m in METHODS:
        for kind in ('result', 'error', 'callback'):
            for once in (False, True):
                ops.append(('add', 0, m, kind, once))
    for m in METHODS:
        for once in (False, True):
            ops.append(('add', 1, m, 'result', once))
    # a callback that raises (e.g. an assertion on the arguments): the call is still matched, rotated and recorded
    ops.append(('add', 0, 'm0', 'cbraise', False))
    ops.append(('add', 0, 'm1', 'cbraise', True))
    # a callback that itself makes a client call (to m1 on the same endpoint) which the same mocker answers
    ops.append(('add', 0, 'm0', 'cbnested', False))
    # ... and one that calls the SAME method again (once: the nested delivery is answered by whatever patch is next in turn)
    ops.append(('add', 0, 'm0', 'cbsame', False))
    for e in (0, 1):
        for m in METHODS:
            ops.append(('call', e, m, 'pos'))
        ops.append(('call', e, 'm0', 'named'))
        if e == 0:
            ops.append(('call', e, 'm0', 'named-id'))       # by-name parameters called id / callback / method / endpoint
        ops.append(('call', e, 'zz', 'pos'))          # unpatched method
        for pair in itertools.product(METHODS, repeat=2):
            ops.append(('batch', e, pair))
        ops.append(('batch', e, ('m0', 'zz')))
        ops.append(('batch', e, ('m%d' % e,)))          # a batch of exactly one element is still a batch (answered with an array)
    ops.append(('callc', 0, 'm0'))                      # the very same request text every time (container arguments the callbacks consume)
    ops.append(('call0', 0, 'm0'))                      # request id 0
    ops.append(('notify', 0, 'm0'))
    return ops


STATIC = static_ops()


def enabled_ops(state):
    ops = list(STATIC)
    for e in (0, 1):
        ep = state.get(e, {})
        if not ep:
            # a document the mocker's own parser would refuse (a batch without elements), sent to an endpoint WITHOUT patches:
            # not the mocker's business - passed through / refused like anything else
            ops.append(('emptybatch', e))
        if ep:
            ops.append(('remove_ep', e))
        for m, lst in ep.items():
            ops.append(('remove', e, m))
            for idx in range(len(lst)):
                ops.append(('replace', e, m, idx))
                ops.append(('replace', e, m, idx, 'result', True))
                if idx == len(lst) - 1:
                    ops.append(('replace', e, m, -1, 'error', False))          # the last patch, addressed from the end
                if e == 0:
                    ops.append(('replace', e, m, idx, 'error', False))
                    ops.append(('replace', e, m, idx, 'callback', True))
    return ops


# ---- reference S7 -------------------------------------------------------------------------------------------------------
def ref_apply(state, calls, op, n, passthrough):
    """state: {e: {m: [patch]}} patch = (n, kind, once); calls: {(e, m): [args]} -> (state, calls, expected observation)"""
    st = {e: {m: list(l) for m, l in ms.items()} for e, ms in state.items()}
    cl = {k: list(v) for k, v in calls.items()}
    kind = op[0]

    def cleanup(e):
        if e in st:
            st[e] = {m: l for m, l in st[e].items() if l}
            if not st[e]:
                del st[e]

    def answer(e, m, args, depth=0):
        """one call on an endpoint that had patches on arrival"""
        lst = st.get(e, {}).get(m)
        if not lst:
            return ('notfound',)
        p = lst.pop(0)
        if not p[2]:
            lst.append(p)
        cleanup(e)
        pn, pk, _ = p
        # a callback consumes the containers among its arguments (the recording stub holds the same objects, so it shows them as the callback left them)
        cl.setdefault((e, m), []).append(consumed(args) if pk == 'callback' else args)
        if pk == 'result':
            return ('result', 'r%d' % pn)
        if pk == 'error':
            return ('error', 1000 + pn, err_view(pn))
        if pk == 'cbraise':
            return ('exc', 'RuntimeError', 'cbraise %d' % pn)
        if pk == 'cbsame':
            if depth >= 1:
                return ('result', ['same%d' % pn, ['leaf']])
            if not st.get(e):
                inner = ('passthrough',) if passthrough else ('refused',)
            else:
                inner = answer(e, 'm0', ('pos', [pn]), depth + 1)
                if inner[0] == 'exc':
                    return inner
            return ('result', ['same%d' % pn, list(inner)])
        if pk == 'cbnested':
            if not st.get(e):
                inner = ('passthrough',) if passthrough else ('refused',)
            else:
                inner = answer(e, 'm1', ('pos', [pn]))
                if inner[0] == 'exc':
                    return inner          # an exception raised by the inner callback travels through the outer call
            return ('result', ['nested%d' % pn, list(inner)])
        return ('result', ['cb%d' % pn, args])

    if kind == 'add':
        _, e, m, pk, once = op
        st.setdefault(e, {}).setdefault(m, []).append((n, pk, once))
        return st, cl, None
    if kind == 'replace':
        e, m, idx = op[1], op[2], op[3]
        pk, once = (op[4], op[5]) if len(op) > 4 else ('result', False)
        st[e][m][idx] = (n, pk, once)
        return st, cl, None
    if kind == 'remove':
        _, e, m = op
        del st[e][m]
        cleanup(e)
        return st, cl, None
    if kind == 'remove_ep':
        del st[op[1]]
        return st, cl, None
    e = op[1]
    if not st.get(e):
        if kind == 'emptybatch' and passthrough:
            return st, cl, ('notified',)          # nothing in it expects an answer
        if kind == 'notify' and passthrough:
            return st, cl, ('notified',)          # the real transport answers a notification with nothing
        return st, cl, ('passthrough',) if passthrough else ('refused',)
    if kind in ('call', 'call0', 'notify', 'callc'):
        m = op[2]
        args = ('kw', {'a': n}) if (kind == 'call' and op[3] == 'named') else ('pos', [n])
        if kind == 'callc':
            args = ('pos', [[1, 2], 'k'])
        if kind == 'call' and op[3] == 'named-id':
            args = ('kw', {'id': n, 'callback': 'c', 'method': 'x', 'endpoint': 'y', 'request': 1})
        a = answer(e, m, args)
        if a[0] == 'exc':
            return st, cl, a
        if kind == 'notify':
            # a notification is matched and recorded like a call; the client gets nothing back (non-strict client)
            return st, cl, ('notified',)
        return st, cl, a
    if kind == 'batch':
        out = []
        for i, m in enumerate(op[2]):
            a = answer(e, m, ('pos', [n, i]))
            if a[0] == 'exc':
                return st, cl, a          # the exception of a callback aborts the delivery: later elements are not processed
            out.append(a)
        return st, cl, ('batch', out)
    raise AssertionError(op)


def canon_ref(st):
    return tuple(sorted((e, tuple(sorted((m, tuple((pk, once, pn) for pn, pk, once in l)) for m, l in ms.items()))) for e, ms in st.items()))


def canon_norm(st):
    """patch numbers are renamed by order of first appearance so that histories differing only in numbering merge"""
    ren = {}
    out = []
    for e in sorted(st):
        ms = []
        for m in sorted(st[e]):
            lst = []
            for pn, pk, once in st[e][m]:
                ren.setdefault(pn, len(ren))
                lst.append((pk, once, ren[pn]))
            ms.append((m, tuple(lst)))
        out.append((e, tuple(ms)))
    return tuple(out)


# ---- real system ------------------------------------------------------------------------------------------------------
def err_data(n):
    """the data configured for error patch n: falsy-but-set values, a truthy one, and (every fifth) no data at all"""
    from pjrpc.common import UNSET
    return [0, '', [], {}, UNSET, False, None, {'k': n}][n % 8]


def err_view(n):
    from pjrpc.common import UNSET
    d = err_data(n)
    return '<absent>' if d is UNSET else d


def make_raising_cb(n):
    def cb(*args, **kwargs):
        raise RuntimeError('cbraise %d' % n)
    return cb


def consumed(args):
    how, v = args
    if how == 'pos':
        return (how, [x + ['consumed'] if isinstance(x, list) else x for x in v])
    return (how, {k: x + ['consumed'] if isinstance(x, list) else x for k, x in v.items()})


def make_cb(n):
    def cb(*args, **kwargs):
        import copy
        out = ['cb%d' % n, ['kw', copy.deepcopy(kwargs)] if kwargs else ['pos', copy.deepcopy(list(args))]]
        for a in list(args) + list(kwargs.values()):
            if isinstance(a, list):
                a.append('consumed')          # the callback works on the arguments it was given, in place
        return out
    return cb


class Watchdog:
    """a call that is never answered (a lock taken twice by the same thread ...) ends after `seconds` with TimeoutError"""
    FIRED = [0]

    def __init__(self, seconds=8):
        # once a call was found unanswered in this process, later ones are given up on quickly (a deadlocking mocker would otherwise cost
        # 8 s for every history that nests a call)
        self.seconds = seconds if not Watchdog.FIRED[0] else 0.4

    def __enter__(self):
        import signal

        def fire(signum, frame):
            Watchdog.FIRED[0] += 1
            raise TimeoutError('call not answered within %d s (deadlock)' % self.seconds)
        self.old = signal.signal(signal.SIGALRM, fire)
        signal.setitimer(signal.ITIMER_REAL, self.seconds)

    def __exit__(self, *a):
        import signal
        signal.setitimer(signal.ITIMER_REAL, 0)
        signal.signal(signal.SIGALRM, self.old)
        return False


_DEPTH = [0]


def make_nested_cb(n, kind, cls, e, same=False):
    def cb(*args, **kwargs):
        if same:
            if _DEPTH[0] >= 1:
                return ['same%d' % n, ['leaf']]
            _DEPTH[0] += 1
            try:
                return nest()
            finally:
                _DEPTH[0] -= 1
        return nest()

    def nest():
        client = cls(EPS[e])
        tag = 'same%d' % n if same else 'nested%d' % n
        try:
            r = client.send(Request('m0' if same else 'm1', [n], id=99))
            if kind == 'async':
                loop = VLoop()
                try:
                    r = loop.run(r)
                finally:
                    loop.close()
        except ConnectionRefusedError:
            return [tag, ['refused']]
        if r.is_error:
            from pjrpc.common import UNSET as _U
            inner = ['notfound'] if r.error.code == -32601 else ['error', r.error.code, '<absent>' if r.error.data is _U else r.error.data]
        elif r.result == 'REAL':
            inner = ['passthrough']
        else:
            inner = ['result', r.result]
        return [tag, inner]
    return cb


def real_apply(kind, mocker, cls, op, n):
    """apply op on the real mocker / client -> observation"""
    k = op[0]
    if k == 'add':
        _, e, m, pk, once = op
        kw = dict(result='r%d' % n) if pk == 'result' else (dict(error=JsonRpcError(1000 + n, 'e%d' % n, data=err_data(n))) if pk == 'error' else
                                                           dict(callback=make_raising_cb(n) if pk == 'cbraise' else (make_nested_cb(n, kind, cls, e, same=(pk == 'cbsame')) if pk in ('cbnested', 'cbsame') else make_cb(n))))
        mocker.add(EPS[e], m, once=once, **kw)
        return None
    if k == 'replace':
        e, m, idx = op[1], op[2], op[3]
        pk, once = (op[4], op[5]) if len(op) > 4 else ('result', False)
        kw = dict(result='r%d' % n) if pk == 'result' else (dict(error=JsonRpcError(1000 + n, 'e%d' % n, data=err_data(n))) if pk == 'error' else dict(callback=make_cb(n)))
        mocker.replace(EPS[e], m, idx=idx, once=once, **kw)
        return None
    if k == 'remove':
        mocker.remove(EPS[op[1]], op[2])
        return None
    if k == 'remove_ep':
        mocker.remove(EPS[op[1]])
        return None
    e = op[1]
    client = cls(EPS[e], strict=(k != 'notify'))

    def drive(thunk):
        try:
            with Watchdog():
                r = thunk()
                if kind == 'async':
                    loop = VLoop()
                    try:
                        r = loop.run(r)
                    finally:
                        loop.close()
            return r
        except ConnectionRefusedError:
            return 'REFUSED'
        except BaseException as ex:   # noqa
            return ('exc', type(ex).__name__, str(ex)[:80])

    def view(resp, want_id):
        if isinstance(resp, Response):
            if resp.id != want_id or type(resp.id) is not type(want_id):
                return ('wrong-id', resp.id, want_id)
            if resp.is_error:
                from pjrpc.common import UNSET as _U
                if resp.error.code == -32601:
                    return ('error', resp.error.code)
                return ('error', resp.error.code, '<absent>' if resp.error.data is _U else resp.error.data)
            if resp.result == 'REAL':
                return ('passthrough',)
            return ('result', resp.result)
        return resp

    if k in ('call', 'call0', 'callc'):
        m = op[2]
        rid = 0 if k == 'call0' else 7
        params = {'a': n} if (k == 'call' and op[3] == 'named') else [n]
        if k == 'callc':
            params = [[1, 2], 'k']
        if k == 'call' and op[3] == 'named-id':
            params = {'id': n, 'callback': 'c', 'method': 'x', 'endpoint': 'y', 'request': 1}
        r = drive(lambda: client.send(Request(m, params, id=rid)))
        if r == 'REFUSED':
            return ('refused',)
        v = view(r, rid)
        if isinstance(v, tuple) and v[0] == 'error' and v[1] == -32601:
            return ('notfound',)
        return v
    if k == 'notify':
        r = drive(lambda: client.send(Request(op[2], [n])))
        if r == 'REFUSED':
            return ('refused',)
        if isinstance(r, tuple) and r and r[0] == 'exc':
            return r
        return ('notified',) if r is None else ('notify-returned', repr(r)[:80])
    if k == 'emptybatch':
        r = drive(lambda: client.batch.send(BatchRequest()))
        if r == 'REFUSED':
            return ('refused',)
        if isinstance(r, tuple) and r and r[0] == 'exc':
            return r
        return ('notified',) if r is None else ('returned', repr(r)[:80])
    if k == 'batch':
        reqs = [Request(m, [n, i], id=10 + i) for i, m in enumerate(op[2])]
        r = drive(lambda: client.batch.send(BatchRequest(*reqs)))
        if r == 'REFUSED':
            return ('refused',)
        if isinstance(r, BatchResponse):
            if r.is_error:
                return ('batch-error', r.error.code)
            if len(r) != len(reqs):
                return ('batch-length', len(r))
            out = []
            for i, resp in enumerate(r):
                v = view(resp, 10 + i)
                out.append(('notfound',) if (isinstance(v, tuple) and v[0] == 'error' and v[1] == -32601) else v)
            if all(x == ('passthrough',) for x in out):
                return ('passthrough',)
            return ('batch', out)
        return r
    raise AssertionError(op)


def recorded_calls(mocker):
    out = {}
    for ep, d in mocker.calls.items():
        for (version, m), stub in d.items():
            lst = []
            for c in stub.call_args_list:
                lst.append(('kw', dict(c.kwargs)) if c.kwargs else ('pos', list(c.args)))
            if lst:
                out[(EPS.index(ep), m)] = lst
    return out


def table_shape(mocker):
    t = getattr(mocker, '_matches', None)
    try:
        return tuple(sorted((str(ep), tuple(sorted((str(k), len(l)) for k, l in v.items()))) for ep, v in t.items()))
    except Exception:   # noqa - a refactored mocker simply loses the extra discriminator
        return None


def norm_obs(o):
    return json.loads(json.dumps(o)) if o is not None else None


def replay_history(history, passthrough, rec, check_last_only=True, probe=True):
    """-> (ref state, canon, violation info | None) after replaying history on sync and async mockers in lock-step"""
    st, cl = {}, {}
    systems = [(k,) + mocker_for(k, passthrough) for k in ('sync', 'async')]
    for _, mocker, _ in systems:
        mocker.reset()
    bad = None
    for step, op in enumerate(history):
        n = step + 1
        st, cl, want = ref_apply(st, cl, op, n, passthrough)
        last = step == len(history) - 1
        for kind, mocker, cls in systems:
            try:
                got = real_apply(kind, mocker, cls, op, n)
            except Exception as ex:   # noqa
                got = ('raised', type(ex).__name__, str(ex)[:80])
            rec.transitions += 1
            if (last or not check_last_only) and bad is None:
                if norm_obs(got) != norm_obs(want):
                    bad = ('answer', kind, step, want, got)
                else:
                    rc = recorded_calls(mocker)
                    if norm_obs(sorted(rc.items())) != norm_obs(sorted(cl.items())):
                        bad = ('calls', kind, step, sorted(cl.items()), sorted(rc.items()))
    shapes = tuple(table_shape(m) for _, m, _ in systems)
    canon = (canon_norm(st), shapes)
    if bad is None and history and probe:
        # look-ahead oracle: the answer sequence of every patched method of the endpoint touched by the last operation,
        # one full rotation plus one call, must be what the reference predicts (this is what makes merging states by
        # the reference patch table sound: hidden divergences of the real table show up here, in the state that has them)
        e = history[-1][1]
        pst, pcl = st, cl
        kind, mocker, cls = systems[0]
        for m in sorted(st.get(e, {})):
            for i in range(len(st[e][m]) + 1):
                if not pst.get(e, {}).get(m):
                    break
                op = ('call', e, m, 'pos')
                n = 100 + i
                pst, pcl, want = ref_apply(pst, pcl, op, n, passthrough)
                got = real_apply(kind, mocker, cls, op, n)
                rec.transitions += 1
                if norm_obs(got) != norm_obs(want):
                    bad = ('lookahead', kind, len(history) - 1, dict(probe=[e, m, i], answer=want), got)
                    break
            if bad:
                break
    return st, canon, bad


def classify(history, bad):
    what, kind, step, want, got = bad
    op = history[step]
    if what == 'lookahead':
        return 'C20:after %s the following answers differ from the configured rotation' % op[0]
    if what == 'calls':
        return 'C20:recorded calls differ from the calls made (%s)' % op[0]
    w = want[0] if isinstance(want, tuple) else want
    g = got[0] if isinstance(got, (tuple, list)) else got
    prev_batch = any(h[0] == 'batch' for h in history[:step])
    return 'C20:%s answered %s instead of %s%s' % (op[0], g, w, ' after a batch consumed the last patch of the endpoint' if (
        w in ('refused', 'passthrough') and g == 'notfound' and prev_batch) else '')


def bfs(ctx, passthrough):
    # quick: passthrough differs from refusal only in what an unpatched endpoint does - one level less
    depth = ctx.pick(3 if passthrough else 4, 5)
    W = ctx.workers
    frontier = [()]
    seen = {((), (None, None))}
    seen = set()
    total_states = 0
    cap = ctx.pick(40000, 400000)
    capped = False
    for level in range(depth):
        items = frontier

        def work(wid):
            rec = Recorder()
            out = []
            for i in range(wid, len(items), W):
                hist = items[i]
                # the reference state of the parent decides which operations are enabled
                st, cl = {}, {}
                for step, op in enumerate(hist):
                    st, cl, _ = ref_apply(st, cl, op, step + 1, passthrough)
                for op in enabled_ops(st):
                    h2 = hist + (op,)
                    st2, canon, bad = replay_history(h2, passthrough, rec)
                    rec.traces += 1
                    if bad:
                        rec.violation(classify(h2, bad), dict(passthrough=passthrough, history=[list(o) for o in h2], transport=bad[1], step=bad[2]),
                                      expected=bad[3], observed=bad[4])
                        continue      # do not expand beyond a violating state
                    out.append((canon, h2))
            return rec, out

        results = fork_map(work, W)
        nxt = []
        for rec, out in results:
            ctx.rec.merge(rec)
            for canon, h2 in out:
                if canon not in seen:
                    seen.add(canon)
                    nxt.append(h2)
        nxt.sort(key=lambda h: json.dumps(h))
        total_states += len(nxt)
        ctx.bounds.setdefault('levels', []).append(dict(passthrough=passthrough, depth=level + 1, new_states=len(nxt)))
        if len(nxt) > cap and level + 1 < depth:
            nxt = nxt[:cap]
            capped = True
            ctx.bounds['capped'] = 'frontier capped at %d states at depth %d (passthrough=%s): deeper levels are NOT exhaustive' % (cap, level + 1, passthrough)
        frontier = nxt
        if not frontier:
            break
    ctx.rec.states += total_states
    return total_states, capped


BACKEND_URLS = ['http://test.com/api', 'http://Billing.Internal/rpc', 'http://gateway:80/api', 'https://gw:443/api', 'http://h/a b', 'http://h/%7Euser/rpc',
                'http://h/x/../rpc', 'http://h/rpc/', 'http://h/rpc?tenant=A&x=1', 'http://user@h/rpc', 'HTTP://H/RPC', 'http://h/\u00e9']


def run_backends(ctx):
    """the mocker patching the REAL client backends: a patch added for an endpoint url answers the client that was built with exactly
    that url (whatever its spelling), records the call under that url, and every other url is refused"""
    import asyncio
    from mc.harness.backends import FakeAiohttpSession
    rec = ctx.rec
    targets = [('requests', 'pjrpc.client.backend.requests.Client', False), ('httpx', 'pjrpc.client.backend.httpx.Client', False),
               ('httpx-async', 'pjrpc.client.backend.httpx.AsyncClient', True), ('aiohttp', 'pjrpc.client.backend.aiohttp.Client', True)]
    for name, path, is_async in targets:
        mod, cls_name = path.rsplit('.', 1)
        cls = getattr(__import__(mod, fromlist=[cls_name]), cls_name)
        for url in BACKEND_URLS:
            for other in ('http://elsewhere/api',):
                with PjRpcMocker(target=path + '._request') as mocker:
                    mocker.add(url, 'm', result=['r', url])
                    mocker.add(url, 'n', result='other method')
                    kw = dict(session=FakeAiohttpSession(None)) if name == 'aiohttp' else {}
                    outs = []
                    for u in (url, other):
                        try:
                            client = cls(u, **kw)
                            r = client.call('m', 1)
                            if is_async:
                                loop = VLoop()
                                try:
                                    r = loop.run(r)
                                finally:
                                    loop.close()
                            outs.append(('ok', r))
                        except ConnectionRefusedError:
                            outs.append(('refused',))
                        except Exception as e:   # noqa
                            outs.append(('exc', type(e).__name__, str(e)[:100]))
                    rec.transitions += 2
                    rec.traces += 1
                    c = dict(part='backends', backend=name, url=url)
                    calls = {ep: {k: len(stub.call_args_list) for k, stub in d.items()} for ep, d in mocker.calls.items()}
                    if outs[0] != ('ok', ['r', url]):
                        rec.violation('C20:backends:a patch added for the url the client was built with does not answer it', c, expected=('ok', ['r', url]), observed=outs[0])
                    elif outs[1] != ('refused',):
                        rec.violation('C20:backends:an endpoint without patches was not refused', c, expected=('refused',), observed=outs[1])
                    elif calls != {url: {('2.0', 'm'): 1}}:
                        rec.violation('C20:backends:recorded calls differ from the calls made', c, expected={url: {('2.0', 'm'): 1}}, observed=repr(calls))
                    rec.counters['backend cases'] += 1
    # passthrough=True: a request to an endpoint without patches goes to the REAL transport of the backend (an in-process one here),
    # as call, notification and batch
    import json as _json
    from mc.harness.backends import make_backend_client

    def real_handler(req):
        doc = _json.loads(req['body'].decode('utf-8'))
        elems = doc if isinstance(doc, list) else [doc]
        out = [dict(jsonrpc='2.0', id=e['id'], result='REAL') for e in elems if 'id' in e]
        body = b'' if not out else _json.dumps(out if isinstance(doc, list) else out[0]).encode()
        return 200, [('Content-Type', 'application/json')], body
    for name, path, is_async in targets:
        with PjRpcMocker(target=path + '._request', passthrough=True) as mocker:
            mocker.add('http://patched/api', 'm', result='MOCKED')
            client = make_backend_client(name, real_handler)          # built for http://rpc.test/api: no patches there
            for what, thunk, want in (('call', lambda: client.call('m', 1), 'REAL'), ('notification', lambda: client.notify('m', 1), None),
                                      ('batch', lambda: client.batch.add('m', 1).add('n', 2).call(), ('REAL', 'REAL'))):
                try:
                    r = thunk()
                    if is_async:
                        loop = VLoop()
                        try:
                            r = loop.run(r)
                        finally:
                            loop.close()
                    got = ('ok', r)
                except Exception as e:   # noqa
                    got = ('exc', type(e).__name__, str(e)[:100])
                rec.transitions += 1
                if got != ('ok', want):
                    rec.violation('C20:backends:a request to an endpoint without patches was not passed through to the real transport', dict(part='backends', backend=name, request=what),
                                  expected=('ok', want), observed=got)
            rec.traces += 1
            rec.counters['backend passthrough cases'] += 1


def scripted_histories():
    """longer histories than the BFS reaches, of one shape: a patches, c calls, removal of the method / the endpoint / every patch by one-shot
    consumption, b new patches - then (look-ahead) a full rotation"""
    flags = [f for k in (1, 2, 3) for f in itertools.product((False, True), repeat=k)]
    for fa in flags:
        for c in range(0, 5):
            for how in ('remove', 'remove_ep'):
                for fb in flags:
                    h = [('add', 0, 'm0', 'result', once) for once in fa]
                    live = list(fa)
                    for _ in range(c):
                        if not live:
                            break
                        h.append(('call', 0, 'm0', 'pos'))
                        o = live.pop(0)
                        if not o:
                            live.append(o)
                    if not live:
                        continue          # nothing left to remove
                    h.append((how, 0, 'm0') if how == 'remove' else (how, 0))
                    h += [('add', 0, 'm0', 'callback' if i == 1 else 'result', once) for i, once in enumerate(fb)]
                    yield tuple(h)


def run_scripted(ctx):
    W = ctx.workers
    items = sorted(set(scripted_histories()))
    if ctx.tier == 'quick':
        items = [h for h in items if len(h) <= 9]

    def work(wid):
        rec = Recorder()
        for i in range(wid, len(items), W):
            h = items[i]
            for passthrough in (False, True):
                st, canon, bad = replay_history(h, passthrough, rec, check_last_only=False)
                rec.traces += 1
                if bad:
                    rec.violation(classify(h, bad), dict(passthrough=passthrough, history=[list(o) for o in h], transport=bad[1], step=bad[2], part='scripted'),
                                  expected=bad[3], observed=bad[4])
        return rec, []
    for rec, _ in fork_map(work, W):
        ctx.rec.merge(rec)
    ctx.rec.counters['scripted histories'] += len(items)
    ctx.rec.states += len(items)


def run(ctx):
    ctx.rule = ('E2: level-synchronous BFS over histories of <= %d operations (quick: 3 with passthrough on) over {add(endpoint, method, result|error|callback, once on/off) '
                '(16 variants), replace at each valid index, remove(endpoint, method), remove(endpoint), single call positional / named, '
                'call of an unpatched method, call with request id 0, notification, batch over every ordered method pair, batch with an '
                'unpatched method} on 2 endpoints x 2 methods, passthrough off and on, the real PjRpcMocker patching a real sync and a '
                'real async client in lock-step with the reference model. canonical state = reference patch table (patch numbers '
                'renamed by first appearance) + shape of the mocker\'s own table (extra discriminator); non-trivial = every explored '
                'transition (answer and recorded calls compared). + every history of the shape <1..3 patches, 0..4 calls, remove(method) / remove(endpoint), '
                '1..3 new patches, a full rotation> (up to 15 operations), every step compared' % ctx.pick(4, 5))
    ctx.assumptions += ['merging is sound: the future of the mocker depends only on the patch table; the call log only grows and is compared at every step',
                        'an element of a batch whose method has no patch left is answered -32601 (the endpoint decision is taken on arrival)']
    capped = False
    for passthrough in (False, True):
        n, c = bfs(ctx, passthrough)
        capped = capped or c
    run_scripted(ctx)
    run_backends(ctx)
    ctx.rec.nontrivial_n = ctx.rec.traces
    ctx.rec.evaluations = ctx.rec.traces
    if capped:
        ctx.exhaustive = False
        ctx.notes.append(ctx.bounds['capped'])
    ctx.guard('state space explored', ctx.rec.states > 500 and ctx.rec.traces > 5000, (ctx.rec.states, ctx.rec.traces))


def replay(doc):
    from mc.core import jdump
    rec = Recorder()
    c = doc['case']
    hist = tuple(tuple(tuple(x) if isinstance(x, list) else x for x in op) for op in c['history'])
    st, canon, bad = replay_history(hist, c['passthrough'], rec, check_last_only=False)
    print('history:', hist)
    if bad:
        print('VIOLATION-REPLAY signature=%s\n  transport=%s step=%d\n  expected=%s\n  observed=%s' % (classify(hist, bad), bad[1], bad[2], jdump(bad[3])[:300], jdump(bad[4])[:300]))
    print('replayed: %d violation(s)' % (1 if bad else 0))
    return 1 if bad else 0
