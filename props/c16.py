"""
C16 - generated OpenAPI / OpenRPC documents are valid, closed, complete and pure.
Mode E1 over programs (ordered method sets x annotation bundles x extractor stacks x endpoint prefixes x document kind) +
E2 over repeated generations.  Invariants on every document: JSON-encodable, validates against the official meta-schema
(second stage under python3-vt's jsonschema 4), every $ref resolves, every method appears once under name and path;
purity (generation k+1 == generation 1, annotations / user objects / Method objects unchanged); non-interference
(entry of A in the document for [A, B] in either order == entry of A alone, incl. reachable components).
"""
import copy
import enum
import hashlib
import itertools
import json
import os
import subprocess
import tempfile
from typing import Any, Dict, List, Optional

import pydantic as pd

import pjrpc
import pjrpc.server
from pjrpc.common import exceptions
from pjrpc.server import Method
from pjrpc.server import specs as specs_mod
from pjrpc.server.specs import extractors, openapi, openrpc
from pjrpc.server.specs.extractors.docstring import DocstringSchemaExtractor
from pjrpc.server.specs.extractors.pydantic import PydanticSchemaExtractor

from mc.core import VERIF, HarnessError


class Model(pd.BaseModel):
    x: int
    y: Optional[str] = None


class Color(enum.Enum):
    RED = 'red'
    BLUE = 'blue'


class Opaque:
    """an arbitrary class no schema extractor can describe: refusing to generate is fine, an incomplete document is not"""


class UserNotFound(exceptions.JsonRpcError):
    code = 7501
    message = 'user not found'


class OrderNotFound(exceptions.JsonRpcError):       # ANOTHER error class with the same code, used by another method
    code = 7501
    message = 'order not found'


# ---- atoms: each builds a fresh function (fresh annotations) every time -------------------------------------------------
def sig_fn(sig, name, doc=None):
    if sig == 's0':
        def f():
            pass
    elif sig == 's1':
        def f(a: int, b: str = 'x') -> int:
            pass
    elif sig == 's2':
        def f(a: Optional[int] = None, b: List[int] = (), c: Dict[str, int] = {}) -> None:   # noqa
            pass
    elif sig == 's3':
        def f(p: Model) -> Model:
            pass
    elif sig == 's4':
        def f(a, b=1):
            pass
    elif sig == 's5':
        def f(a: int) -> Optional[str]:
            pass
    elif sig == 's6':
        def f(c: Color, ctx=None) -> List[Model]:
            pass
    elif sig == 's7':
        def f(a: int, o: Opaque) -> int:
            pass
    else:
        raise AssertionError(sig)
    f.__name__ = name
    f.__qualname__ = name
    f.__doc__ = doc
    return f


DOCSTRINGS = {
    'dparams': """
        Summary line.
        Longer description.

        :param integer a: the a.
        :param string b: the b.
        :return integer: the result.
        """,
    'draises': """
        Summary of raising method.

        :param integer a: the a.
        :raises InvalidParamsError: bad params
        :raises MethodNotFoundError: not found
        """,
    'ddeprecated': """
        Old method.

        .. deprecated:: 1.0
            use something else
        """,
}

DOCSTRINGS['dnumpy'] = """
        Numpy style summary.

        Parameters
        ----------
        a : integer
        b : string

        Returns
        -------
        integer
        """
DOCSTRINGS['dbare'] = """
        Bare rest style.

        :param integer a:
        :return integer:
        """

SHARED = {}


def bundle(b, name, shared):
    """-> (openapi.annotate kwargs, openrpc.annotate kwargs, user objects to snapshot)"""
    if b in ('none', 'pep702', 'samequal-a', 'samequal-b'):
        return None, None, []
    if b == 'schemas-unset':
        cd = [openrpc.ContentDescriptor(name='a', schema={'type': 'integer'}), openrpc.ContentDescriptor(name='b', schema={'type': 'string'})]
        return None, dict(params_schema=cd), [cd]
    if b == 'errors':
        e1 = [exceptions.MethodNotFoundError, exceptions.InvalidParamsError]
        e2 = [exceptions.MethodNotFoundError, exceptions.InvalidParamsError]
        return dict(errors=e1), dict(errors=e2), [e1, e2]
    if b in ('errsame-a', 'errsame-b'):
        cls = UserNotFound if b == 'errsame-a' else OrderNotFound
        e1, e2 = [cls], [cls]
        return dict(errors=e1), dict(errors=e2), [e1, e2]
    if b == 'shared':
        # ONE list object given to several methods
        return dict(errors=shared['oa']), dict(errors=shared['orpc']), [shared['oa'], shared['orpc']]
    if b == 'tags':
        t1 = ['tag_' + name, openapi.Tag(name='common', description='d')]
        t2 = ['tag_' + name, openrpc.Tag(name='common', description='d')]
        return dict(tags=t1, summary='sum ' + name, description='desc ' + name), dict(tags=t2, summary='sum ' + name, description='desc ' + name), [t1, t2]
    if b == 'examples':
        ex1 = [openapi.MethodExample(params={'a': 1}, result=name, summary='ex ' + name)]
        ex2 = [openrpc.MethodExample(name='ex ' + name, params=[openrpc.ExampleObject(value=1, name='a')],
                                     result=openrpc.ExampleObject(value=name, name='r'))]
        return dict(examples=ex1), dict(examples=ex2), [ex1, ex2]
    if b == 'prefix':
        return dict(component_name_prefix='Pfx' + name.capitalize()), None, []
    if b == 'misc':
        s1 = [openapi.Server(url='http://' + name)]
        s2 = [openrpc.Server(name=name, url='http://' + name)]
        sec = [{'basic': []}]
        return (dict(servers=s1, security=sec, deprecated=True, external_docs=openapi.ExternalDocumentation(url='http://d/' + name)),
                dict(servers=s2, deprecated=True, external_docs=openrpc.ExternalDocumentation(url='http://d/' + name)), [s1, s2, sec])
    if b == 'schemas':
        ps = {'a': {'type': 'integer', 'title': 'A of ' + name}}
        rs = {'type': 'string', 'title': 'R of ' + name}
        cd = [openrpc.ContentDescriptor(name='a', schema={'type': 'integer'}, required=True)]
        rd = openrpc.ContentDescriptor(name='result', schema={'type': 'string'})
        return dict(params_schema=ps, result_schema=rs), dict(params_schema=cd, result_schema=rd), [ps, rs, cd]
    raise AssertionError(b)


CORE = [
    ('s1', 'none', None), ('s3', 'none', None), ('s1', 'errors', None), ('s0', 'shared', None), ('s5', 'shared', 'draises'),
    ('s1', 'tags', None), ('s1', 'examples', None), ('s3', 'prefix', None), ('s4', 'none', 'dparams'), ('s2', 'none', 'ddeprecated'),
    ('s5', 'misc', None), ('s0', 'schemas', None), ('s6', 'none', None), ('s4', 'none', 'draises'),
    ('s1', 'none', 'dnumpy'), ('s5', 'none', 'dbare'),
]
# further atoms, combined with each other and with a few core atoms only (set 'corex' = CORE + EXTRA)
EXTRA = [('s1', 'errsame-a', None), ('s5', 'errsame-b', None), ('s7', 'none', None), ('s7', 'errors', 'dparams'),
         # a content descriptor that leaves `required` unset; a handler carrying the PEP 702 marker (__deprecated__ holds the MESSAGE);
         # two handlers made by one factory: same __module__ and __qualname__, different docstrings and signatures
         ('s1', 'schemas-unset', None), ('s1', 'pep702', None), ('s4', 'samequal-a', 'dparams'), ('s5', 'samequal-b', 'draises')]
COREX = CORE + EXTRA
MAY_REFUSE = {'s7'}          # signatures an extractor may refuse to describe (generation raising is accepted for them)
FULL = [(s, b, None) for s in ('s0', 's1', 's2', 's3', 's4', 's5', 's6') for b in ('none', 'errors', 'shared', 'tags', 'examples', 'prefix', 'misc', 'schemas')] + \
       [(s, 'none', d) for s in ('s1', 's4', 's5') for d in DOCSTRINGS] + [('s1', 'errors', 'draises'), ('s3', 'prefix', 'dparams')]

USER_EXTRA = {'x-origin': 'svc', 'x-list': [1]}          # an object the user hands to the extractor

STACKS = {
    'pydantic-extra': lambda: [PydanticSchemaExtractor(json_schema_extra=USER_EXTRA)],
    'default': lambda: [],
    'pydantic': lambda: [PydanticSchemaExtractor()],
    'docstring': lambda: [DocstringSchemaExtractor()],
    'pydantic+docstring': lambda: [PydanticSchemaExtractor(), DocstringSchemaExtractor()],
    'docstring+pydantic': lambda: [DocstringSchemaExtractor(), PydanticSchemaExtractor()],
}
KINDS = ['openapi-3.1', 'openapi-3.0', 'openrpc']


def build_methods(atoms):
    """-> (Method objects, user objects, names)"""
    shared = dict(oa=[exceptions.InvalidParamsError], orpc=[exceptions.InvalidParamsError])
    methods, users, names = [], [shared['oa'], shared['orpc']], []
    for i, (sig, b, doc) in enumerate(atoms):
        name = 'm%d_%s_%s' % (i, sig, b)
        f = sig_fn(sig, name, DOCSTRINGS.get(doc))
        if b == 'pep702':
            f.__deprecated__ = 'use another method instead'
        if b.startswith('samequal'):
            f.__qualname__ = 'make_handler.<locals>.handler'
        oa, orpc, objs = bundle(b, name, shared)
        if oa is not None:
            f = openapi.annotate(**oa)(f)
        if orpc is not None:
            f = openrpc.annotate(**orpc)(f)
        users += objs
        methods.append(Method(f, name, context='ctx' if sig == 's6' else None))
        names.append(name)
    return methods, users, names


def make_spec(kind, stack, variant='plain'):
    ex = STACKS[stack]()
    if kind.startswith('openapi'):
        smap = {-32601: 404, -32602: 422, -32600: 400} if 'statusmap' in variant else {}
        return openapi.OpenAPI(info=openapi.Info(title='t', version='1'), openapi='3.1.0' if kind.endswith('3.1') else '3.0.3', error_http_status_map=smap,
                               schema_extractors=ex, security_schemes={'basic': openapi.SecurityScheme(type=openapi.SecuritySchemeType.HTTP, scheme='basic')})
    if len(ex) > 1:
        return None      # OpenRPC takes a single extractor
    return openrpc.OpenRPC(info=openrpc.Info(title='t', version='1'), schema_extractor=ex[0] if ex else None)


def snapshot(methods, users):
    return (repr([(m.name, m.context, m.positional, sorted((k, repr(v)) for k, v in getattr(m.method, '__pjrpc_meta__', {}).items()))
                  for m in methods]), repr(users))


def refs_in(node, acc):
    if isinstance(node, dict):
        for k, v in node.items():
            if k == '$ref' and isinstance(v, str):
                acc.append(v)
            else:
                refs_in(v, acc)
    elif isinstance(node, list):
        for v in node:
            refs_in(v, acc)
    return acc


def lookup(doc, ref):
    if not ref.startswith('#/'):
        return None
    node = doc
    for part in ref[2:].split('/'):
        part = part.replace('~1', '/').replace('~0', '~')
        if isinstance(node, dict) and part in node:
            node = node[part]
        else:
            return None
    return node


def entry_of(doc, kind, path, prefix, name):
    """the method's own entry plus everything reachable from it through $ref"""
    if kind.startswith('openapi'):
        key = '%s#%s' % (pjrpc.server.utils.join_path(path, prefix), name)
        entries = [v for k, v in doc.get('paths', {}).items() if k == key]
    else:
        entries = [m for m in doc.get('methods', []) if m.get('name') == name]
    if len(entries) != 1:
        return None, len(entries)
    entry = entries[0]
    reach = {}
    todo = refs_in(entry, [])
    while todo:
        r = todo.pop()
        if r in reach:
            continue
        node = lookup(doc, r)
        reach[r] = node
        if node is not None:
            todo += refs_in(node, [])
    return dict(entry=entry, components=reach), 1


def generate(kind, stack, path, prefix, methods):
    spec = make_spec(kind, stack)
    if spec is None:
        return None
    return spec, spec.schema(path=path, methods_map={prefix: methods})


def strip_names(x, names):
    """method names contain their position (m0_.., m1_..): normalise so entries can be compared across positions"""
    s = json.dumps(x, sort_keys=True, cls=specs_mod.JSONEncoder)
    for i, n in enumerate(names):
        pass
    return s


# quick tier: the configuration variants are combined with pairs over these core atoms only (errors, shared list + raises, tags,
# examples, component prefix, docstring params, servers / security, explicit schemas, enum + context)
QUICK_PAIR_ATOMS = (2, 4, 5, 6, 7, 8, 10, 11, 12)


def gen_cases(ctx):
    core = list(range(len(CORE)))
    kmax = ctx.pick(2, 3)
    for stack in STACKS:
        for kind in KINDS:
            for prefix in ('', '/sub'):
                if stack == 'pydantic-extra' and prefix:
                    continue
                if kind == 'openrpc' and prefix:
                    continue          # OpenRPC documents the root endpoint only (it has no notion of paths)
                if ctx.quick and prefix and stack not in ('pydantic', 'docstring'):
                    continue
                for k in range(1, kmax + 1):
                    for idx in itertools.permutations(core, k):
                        if k == 3 and not (stack in ('pydantic', 'pydantic+docstring') and prefix == ''):
                            continue
                        yield dict(set='core', atoms=idx, stack=stack, kind=kind, prefix=prefix)
    # OpenAPI configuration variants: errors mapped to their own http status, a document-wide component prefix
    for stack in ('pydantic', 'docstring+pydantic', 'docstring'):
        for kind in ('openapi-3.1', 'openapi-3.0'):
            for variant in ('statusmap', 'gprefix', 'statusmap+gprefix'):
                for k in (1, 2):
                    for idx in itertools.permutations(core, k):
                        if k == 2 and stack == 'docstring':
                            continue
                        if k == 2 and ctx.quick and not (idx[0] in QUICK_PAIR_ATOMS and idx[1] in QUICK_PAIR_ATOMS):
                            continue
                        yield dict(set='core', atoms=idx, stack=stack, kind=kind, prefix='', variant=variant)
    # ONE specification object (and its extractors) used for a sequence of different registries: A, B, A again
    for stack in ('pydantic', 'docstring', 'docstring+pydantic'):
        for kind in KINDS:
            for idx in itertools.permutations(core if not ctx.quick else [0, 1, 2, 4, 7, 8, 14], 2):
                yield dict(set='core', atoms=idx, stack=stack, kind=kind, prefix='', sequence=True)
            for i in core:
                yield dict(set='core', atoms=(i,), stack=stack, kind=kind, prefix='', late_error=True)
    # the same function registered under two exposed names in one document
    for stack in ('pydantic', 'docstring'):
        for kind in KINDS:
            for i in core:
                yield dict(set='core', atoms=(i,), stack=stack, kind=kind, prefix='', alias=True)
    # several endpoints in one document (OpenAPI): the first method on the root endpoint, the others under /sub
    for stack in ('pydantic', 'docstring+pydantic'):
        for kind in ('openapi-3.1', 'openapi-3.0'):
            for idx in itertools.permutations(core, 2):
                if ctx.quick and not (idx[0] in QUICK_PAIR_ATOMS and idx[1] in QUICK_PAIR_ATOMS):
                    continue
                yield dict(set='core', atoms=idx, stack=stack, kind=kind, prefix='multi')
    for integration in ('aiohttp', 'flask'):
        for base in ('/api', '/api/v1', '/rpc'):
            # (flask cannot serve two specifications at all - both rules get the endpoint name '_generate_spec' and init_app raises;
            #  that is outside the properties, see DESIGN.md section 9)
            for layout in ('main', 'endpoint', 'two-endpoints', 'container') + (('child', 'two-specs') if integration == 'aiohttp' else ('mounted',)):
                for kind in ('openapi', 'openrpc'):
                    yield dict(set='served', integration=integration, base=base, layout=layout, kind=kind)
                    if layout == 'two-specs':
                        yield dict(set='served', integration=integration, base=base, layout=layout, kind=kind, first=False)
                    if layout == 'endpoint' and kind == 'openapi' and base == '/api':
                        yield dict(set='served', integration=integration, base=base, layout=layout, kind=kind, noprefix=True)
    # two threads generating from one specification object: methods with different component prefixes / error lists / tags
    K = 16
    for kind in ('openapi-3.1', 'openrpc'):
        for atoms in ((7, 2), (7, 5)) + (() if ctx.quick else ((2, 7), (5, 7), (7, 2, 5))):
            if ctx.quick and kind == 'openapi-3.1' and atoms != (7, 2):
                continue          # quick: one OpenAPI pair (a schedule costs ~0.1 s there), both OpenRPC pairs
            for k in range(K):
                # (two preemptions: one thread is interrupted, the other starts and is interrupted in turn; the subtrees below the
                # second preemption are dealt to the shards one by one, which balances them)
                yield dict(set='threads', kind=kind, atoms=list(atoms), budget=2, shard=(k, K, 2))
    xs = list(range(len(CORE), len(COREX)))
    for stack in ('pydantic', 'docstring', 'docstring+pydantic', 'default'):
        for kind in KINDS:
            for i in xs:
                yield dict(set='corex', atoms=(i,), stack=stack, kind=kind, prefix='')
                for j in xs + [0, 1, 2, 4]:
                    if i != j:
                        yield dict(set='corex', atoms=(i, j), stack=stack, kind=kind, prefix='')
                        yield dict(set='corex', atoms=(j, i), stack=stack, kind=kind, prefix='')
            if stack != 'default':
                for i, j in ((len(CORE), len(CORE) + 1), (len(CORE) + 1, len(CORE))):
                    yield dict(set='corex', atoms=(i, j), stack=stack, kind=kind, prefix='', sequence=True)
    full = list(range(len(FULL)))
    for stack in ('pydantic+docstring', 'docstring'):
        for kind in KINDS:
            for k in (1, 2) if not ctx.quick else (1,):
                for idx in itertools.permutations(full, k):
                    yield dict(set='full', atoms=idx, stack=stack, kind=kind, prefix='')


def run_case(case, rec):
    if case.get('set') == 'served':
        return run_served(case, rec)
    if case.get('set') == 'threads':
        return run_threads(case, rec)
    table = {'core': CORE, 'corex': COREX}.get(case['set'], FULL)
    atoms = [table[i] for i in case['atoms']]
    kind, stack, prefix = case['kind'], case['stack'], case['prefix']
    path = '/api'
    variant = case.get('variant', 'plain')
    gkw = dict(component_name_prefix='Glob') if 'gprefix' in variant else {}
    if make_spec(kind, stack) is None:
        return 'n/a'

    def viol(sig, expected, observed, **extra):
        rec.violation('C16:%s:%s' % (kind, sig), dict(case, atoms_desc=atoms, **extra), expected=expected, observed=observed)

    if case.get('sequence') or case.get('late_error'):
        return run_sequence(case, rec, atoms, kind, stack, path, viol)
    methods, users, names = build_methods(atoms)
    if case.get('alias'):
        methods.append(Method(methods[0].method, 'alias_' + names[0], context=methods[0].context))
        names.append('alias_' + names[0])
    if prefix == 'multi':
        prefixes = [''] + ['/sub'] * (len(methods) - 1)
    else:
        prefixes = [prefix] * len(methods)

    def mmap(ms, pfs):
        out = {}
        for m, pf in zip(ms, pfs):
            out.setdefault(pf, []).append(m)
        return out
    before = snapshot(methods, users)
    docs = []
    spec = make_spec(kind, stack, variant)
    gens = 3 if len(atoms) == 1 else 2
    try:
        for g in range(gens):
            docs.append(spec.schema(path=path, methods_map=mmap(methods, prefixes), **gkw))
            rec.transitions += 1
    except Exception as e:   # noqa
        if any(a[0] in MAY_REFUSE for a in atoms):
            rec.outcomes['refused to document an opaque annotation'] += 1
            rec.states += 1
            rec.traces += 1
            return 'refused'
        viol('generation raised %s (%s extractor)' % (type(e).__name__, stack), 'a document', '%s: %s' % (type(e).__name__, str(e)[:200]))
        return 'raised'
    # JSON-encodable
    try:
        texts = [json.dumps(d, sort_keys=True, cls=specs_mod.JSONEncoder) for d in docs]
    except Exception as e:   # noqa
        viol('document is not JSON-encodable', 'JSON', '%s: %s' % (type(e).__name__, str(e)[:200]))
        return 'notjson'
    doc = json.loads(texts[0])
    # closed: every $ref resolves
    dangling = sorted({r for r in refs_in(doc, []) if lookup(doc, r) is None})
    if dangling:
        viol('dangling $ref', 'every $ref resolves inside the document', dangling[:5])
    # complete: every method exactly once under name (and path)
    for n, pf in zip(names, prefixes):
        e, count = entry_of(doc, kind, path, pf, n)
        if count != 1:
            viol('method documented %d times' % count, 'exactly once', n)
    extra_entries = (len(doc.get('paths', {})) if kind.startswith('openapi') else len(doc.get('methods', []))) - len(names)
    if extra_entries:
        viol('document lists entries for methods that were not registered', 0, extra_entries)
    # pure: repeated generation identical, nothing mutated
    for g in range(1, gens):
        if texts[g] != texts[0]:
            viol('repeated generation yields a different document', 'identical', 'generation %d differs' % (g + 1))
            break
    if USER_EXTRA != {'x-origin': 'svc', 'x-list': [1]}:
        viol('generation modified objects passed in by the user', {'x-origin': 'svc', 'x-list': [1]}, dict(USER_EXTRA))
        USER_EXTRA.clear()
        USER_EXTRA.update({'x-origin': 'svc', 'x-list': [1]})
    after = snapshot(methods, users)
    if after != before:
        what = 'method annotations' if after[0] != before[0] else 'objects passed in by the user'
        viol('generation modified %s' % what, 'unchanged', [a for a, b in zip(after, before) if a != b][0][:300])
    # non-interference: each method's entry equals its entry when documented alone
    if len(methods) > 1:
        for i in range(len(methods)):
            if case.get('alias'):
                m_alone, u_alone, n_alone = build_methods(atoms)
                solo_methods = [m_alone[0]] if i == 0 else [Method(m_alone[0].method, names[1], context=m_alone[0].context)]
                atom = atoms[0]
            else:
                atom = atoms[i]
                m_alone, u_alone, n_alone = build_methods(atoms[:i] + [atom])     # same position -> same generated name
                solo_methods = [m_alone[i]]
            try:
                solo_doc = json.loads(json.dumps(make_spec(kind, stack, variant).schema(path=path, methods_map={prefixes[i]: solo_methods}, **gkw),
                                                 sort_keys=True, cls=specs_mod.JSONEncoder))
                rec.transitions += 1
            except Exception:   # noqa
                continue      # reported by the singleton case
            e_set, c1 = entry_of(doc, kind, path, prefixes[i], names[i])
            e_solo, c2 = entry_of(solo_doc, kind, path, prefixes[i], names[i])
            if e_set is not None and e_solo is not None and json.dumps(e_set, sort_keys=True) != json.dumps(e_solo, sort_keys=True):
                ent_diff = json.dumps(e_set['entry'], sort_keys=True) != json.dumps(e_solo['entry'], sort_keys=True)
                viol('entry of a method depends on the other methods (%s)' % ('entry' if ent_diff else 'reachable components'),
                     'same entry as when documented alone', dict(method=names[i], atom=atom), method=names[i])
    # second stage
    h = hashlib.sha1((kind + texts[0]).encode()).hexdigest()
    rec.blobs.setdefault(h, (kind, texts[0], dict(case, atoms_desc=atoms)))
    rec.states += 1
    rec.traces += 1
    if len(atoms) > 1:
        rec.nontrivial_n += 1
    rec.outcomes[kind] += 1
    return h


_LATE = [0]


def run_sequence(case, rec, atoms, kind, stack, path, viol):
    """one long-lived specification object generating for registry A, then B, then A again (and for a method documenting an
    error class that was defined only after the first generation): every document must equal the one a fresh
    specification object produces for the same registry"""
    def dump(d):
        return json.dumps(d, sort_keys=True, cls=specs_mod.JSONEncoder)

    def fresh(ms):
        return dump(make_spec(kind, stack).schema(path=path, methods_map={'': ms}))
    spec = make_spec(kind, stack)
    if spec is None:
        return 'n/a'
    try:
        if case.get('sequence'):
            methods, users, names = build_methods(atoms)
            A, B = [methods[0]], [methods[1]]
            seq = [('A', A), ('B', B), ('A', A), ('AB', A + B), ('B', B)]
        else:
            methods, users, names = build_methods(atoms)
            first = dump(spec.schema(path=path, methods_map={'': methods}))
            rec.transitions += 1
            _LATE[0] += 1
            code = 7400 + _LATE[0]
            cls = type('LateError%d' % _LATE[0], (exceptions.JsonRpcError,), dict(code=code, message='late %d' % code))

            def late(a: int) -> int:
                pass
            late.__doc__ = "Late method.\n\n:param integer a: the a.\n:raises %s: defined after the first generation\n" % cls.__name__
            late.__name__ = 'late'
            seq = [('late', [Method(late, 'late')]), ('first', methods)]
        for label, ms in seq:
            got = dump(spec.schema(path=path, methods_map={'': ms}))
            want = fresh(ms)
            rec.transitions += 2
            if got != want:
                viol('document of a re-used specification object differs from a fresh one (%s)' % (
                    'after other registries were documented' if case.get('sequence') else 'error class defined after the first generation'),
                    'same document as a fresh specification object', dict(step=label))
                break
    except Exception as e:   # noqa
        viol('generation raised %s (%s extractor)' % (type(e).__name__, stack), 'a document', '%s: %s' % (type(e).__name__, str(e)[:200]))
        return 'raised'
    rec.states += 1
    rec.traces += 1
    rec.nontrivial_n += 1
    rec.outcomes[kind] += 1
    return 'seq'


def run_served(case, rec):
    """the document as SERVED by a web-framework integration (GET <base>/openapi.json): every documented 'path#method' must be a
    URL + method name that really reaches that method when POSTed to the same application, and every method registered on every
    endpoint must be documented - the endpoint paths in the document are the paths the integration routes"""
    from mc.harness.http import Integration
    import flask
    from aiohttp import web
    kind, base, layout, speckind = case['integration'], case['base'], case['layout'], case['kind']
    if speckind == 'openrpc':
        spec = openrpc.OpenRPC(info=openrpc.Info(title='t', version='1'), schema_extractor=PydanticSchemaExtractor())
    else:
        spec = openapi.OpenAPI(info=openapi.Info(title='t', version='1'), schema_extractors=[PydanticSchemaExtractor()])
    mount = '/mnt' if layout == 'mounted' else ''
    if layout == 'two-specs':
        # both kinds of document served by one application: the one under test is given first or last
        other = (openapi.OpenAPI(info=openapi.Info(title='o', version='1'), schema_extractors=[PydanticSchemaExtractor()]) if speckind == 'openrpc'
                 else openrpc.OpenRPC(info=openrpc.Info(title='o', version='1'), schema_extractor=PydanticSchemaExtractor()))
        integ = Integration(kind, base, spec=spec, specs=[other]) if case.get('first', True) else Integration(kind, base, spec=other, specs=[spec])
    else:
        integ = Integration(kind, base, spec=spec, mount=mount or None)
    is_async = kind == 'aiohttp'

    def mk(tag, variant):
        # the same method name has another signature on another endpoint (API versions)
        if variant:
            if is_async:
                async def f(b: str = 'x', *, c: int = 1) -> str:
                    return tag
            else:
                def f(b: str = 'x', *, c: int = 1) -> str:
                    return tag
        elif is_async:
            async def f(a: int = 0) -> str:
                return tag
        else:
            def f(a: int = 0) -> str:
                return tag
        # documentation supplied by the user that holds a member of a plain enum (the specification encoder renders it); the
        # variant carries its own component name prefix - the documented way to keep same-named methods apart in one document
        okw = dict(component_name_prefix='V2') if (variant and not case.get('noprefix')) else {}
        f = openapi.annotate(examples=[openapi.MethodExample(params={'a': Color.RED}, result=Color.BLUE, summary='e')], **okw)(f)
        f = openrpc.annotate(examples=[openrpc.MethodExample(name='e', params=[openrpc.ExampleObject(value=Color.RED, name='a')],
                                                              result=openrpc.ExampleObject(value=Color.BLUE, name='r'))])(f)
        return f
    registered = {}          # (url path, method name) -> tag
    truth_params = {}        # (url path, method name) -> documented parameter names

    def reg(dispatcher, url, names):
        for n in names:
            tag = '%s:%s' % (url, n)
            variant = (n == 'shared' and url != base)
            dispatcher.add(mk(tag, variant), name=n)
            registered[(url, n)] = tag
            truth_params[(url, n)] = ['b', 'c'] if variant else ['a']
    rpc = integ.rpc
    reg(rpc.dispatcher, base, ['alpha', 'shared'])
    if layout in ('endpoint', 'two-endpoints'):
        reg(rpc.add_endpoint('/sub'), base + '/sub', ['beta', 'shared'])
    if layout == 'two-endpoints':
        reg(rpc.add_endpoint('/sub/deep/'), base + '/sub/deep', ['gamma'])
    if layout == 'container':
        cont = dict(subapp=web.Application()) if kind == 'aiohttp' else dict(blueprint=flask.Blueprint('bp_c16', 'c16'))
        reg(rpc.add_endpoint('/sub', **cont), base + '/sub', ['beta', 'shared'])
    if layout == 'child':
        from pjrpc.server.integration import aiohttp as ia
        child = ia.Application('/rpc2')
        rpc.add_subapp('/sub', child)
        reg(child.dispatcher, base + '/sub/rpc2', ['beta', 'shared'])
    c = dict(case)
    base = mount + base          # where the application really serves the extension
    registered = {(mount + u, n): t for (u, n), t in registered.items()}
    truth_params = {(mount + u, n): t for (u, n), t in truth_params.items()}
    rep = integ.get('%s/%s' % (base, spec.path.lstrip('/')))
    rec.transitions += 1
    if rep.raised or rep.status != 200:
        rec.violation('C16:%s:served:the specification endpoint did not answer 200' % speckind, c, expected=200, observed=repr(rep))
        return 'noserve'
    try:
        doc = json.loads(rep.body.decode('utf-8'))
    except Exception as e:   # noqa
        rec.violation('C16:%s:served:document is not JSON' % speckind, c, expected='JSON', observed=repr(rep.body[:200]))
        return 'notjson'
    if ('openrpc' in doc) != (speckind == 'openrpc') or ('openapi' in doc) != (speckind == 'openapi'):
        rec.violation('C16:%s:served:the url of one specification serves another kind of document' % speckind, c, expected=speckind, observed=sorted(doc)[:6])
        return 'wrongkind'
    if speckind == 'openrpc':
        documented = {(base, m.get('name')) for m in doc.get('methods', [])}
        want = {k for k in registered if k[0] == base}        # OpenRPC documents the endpoint it is served on
    else:
        documented = set()
        for key in doc.get('paths', {}):
            url, _, name = key.partition('#')
            documented.add((url, name))
        want = set(registered)
    if documented != want:
        rec.violation('C16:%s:served:documented (path, method) pairs differ from the registered ones' % speckind, c,
                      expected=sorted(want), observed=sorted(documented))
    from . import c17
    for url, name in sorted(documented & want):
        # the parameters documented for (path, method) are those of the function registered THERE
        try:
            if speckind == 'openrpc':
                got_params = c17.openrpc_params(doc, name)[0]
            else:
                key = [k for k in doc['paths'] if k == '%s#%s' % (url, name)][0]
                schema = c17.resolve(doc, doc['paths'][key]['post']['requestBody']['content']['application/json']['schema'])
                got_params = sorted(c17.resolve(doc, schema['properties']['params']).get('properties', {}))
        except Exception as e:   # noqa
            got_params = 'unreadable: %s' % type(e).__name__
        if got_params != sorted(truth_params[(url, name)]):
            rec.violation('C16:%s:served:the parameters documented for a path#method are not those of the method registered there%s' % (
                speckind, ' (same method name on two endpoints, no component_name_prefix)' if case.get('noprefix') else ''), dict(c, url=url, method=name),
                          expected=sorted(truth_params[(url, name)]), observed=got_params)
    for url, name in sorted(documented & want):
        r = integ.post(json.dumps({'jsonrpc': '2.0', 'id': 1, 'method': name}).encode(), 'application/json', path=url)
        rec.transitions += 1
        got = None
        try:
            got = json.loads(r.body.decode('utf-8')).get('result')
        except Exception:   # noqa
            pass
        if got != registered[(url, name)]:
            rec.violation('C16:%s:served:a documented path#method does not reach the method it documents' % speckind, dict(c, url=url, method=name),
                          expected=registered[(url, name)], observed=repr(r))
    # the application goes on living: a method is added and another one registered again with a new signature AFTER the document was
    # served; the document served next describes the registry as it is then
    if layout != 'two-specs':
        if is_async:
            async def late(z: int = 0) -> str:
                return 'late'

            async def alpha2(q: str = 'x') -> str:
                return 'alpha2'
        else:
            def late(z: int = 0) -> str:
                return 'late'

            def alpha2(q: str = 'x') -> str:
                return 'alpha2'
        rpc.dispatcher.add(late, name='late')
        rpc.dispatcher.add(alpha2, name='alpha')
        rep2 = integ.get('%s/%s' % (base, spec.path.lstrip('/')))
        rec.transitions += 1
        try:
            doc2 = json.loads(rep2.body.decode('utf-8'))
            if speckind == 'openrpc':
                names2 = {m.get('name') for m in doc2.get('methods', [])}
                alpha_params = c17.openrpc_params(doc2, 'alpha')[0]
            else:
                names2 = {key.partition('#')[2] for key in doc2.get('paths', {}) if key.partition('#')[0] == base}
                schema = c17.resolve(doc2, doc2['paths']['%s#alpha' % base]['post']['requestBody']['content']['application/json']['schema'])
                alpha_params = sorted(c17.resolve(doc2, schema['properties']['params']).get('properties', {}))
            seen2 = (sorted(names2), alpha_params)
        except Exception as e:   # noqa
            seen2 = 'unreadable: %s: %s' % (type(e).__name__, e)
        want2 = (sorted({n for u, n in registered if u == base} | {'late'}), ['q'])
        if seen2 != want2:
            rec.violation('C16:%s:served:the document served after a later registration does not describe the registry as it is then' % speckind, c,
                          expected=want2, observed=seen2)
    h = hashlib.sha1((speckind + rep.body.decode('utf-8')).encode()).hexdigest()
    k = 'openapi-3.1' if speckind == 'openapi' else 'openrpc'
    rec.blobs.setdefault(h, (k, json.dumps(doc, sort_keys=True), c))
    rec.states += 1
    rec.traces += 1
    rec.nontrivial_n += 1
    rec.outcomes['served:' + speckind] += 1
    return h


def run_threads(case, rec):
    """E5: two threads generate from ONE specification object at the same time (two concurrent GETs of the document on a threaded
    server); a thread switch is possible at the entry of every schema() / _extract_* / helper method of the generator class; each thread's document must be the
    document an undisturbed generation gives"""
    import os
    from mc.core import explore_choices
    from mc.threadsched import run_threads as sched_run
    gen_file = os.path.join(os.path.dirname(os.path.abspath(pjrpc.__file__)), 'server', 'specs', 'openapi.py' if case['kind'] != 'openrpc' else 'openrpc.py')
    atoms = [COREX[i] for i in case['atoms']]
    methods, users, names = build_methods(atoms)

    def dump(d):
        return json.dumps(d, sort_keys=True, cls=specs_mod.JSONEncoder)
    want = dump(make_spec(case['kind'], 'pydantic').schema(path='/api', methods_map={'': methods}))
    n = 0

    def once(env):
        spec = make_spec(case['kind'], 'pydantic')
        outs = [None, None]

        def body(i):
            def f():
                outs[i] = dump(spec.schema(path='/api', methods_map={'': methods}))
            return f
        res, tr = sched_run([body(0), body(1)], env, [gen_file], granularity='call', name_prefixes=('schema', '_extract', '_get', '_make', '_build'))
        return outs, res, tr
    for choices, (outs, res, tr) in explore_choices(once, budget=case['budget'], shard=tuple(case['shard']), max_exec=400000):
        n += 1
        rec.transitions += tr.points
        for i in (0, 1):
            if res[i][0] == 'exc':
                rec.violation('C16:%s:threads:generation raised when two threads generate from one specification object' % case['kind'], dict(case, choices=list(choices)),
                              expected='a document', observed='%s: %s' % (type(res[i][1]).__name__, res[i][1]))
                break
            if outs[i] != want:
                rec.violation('C16:%s:threads:a document generated while another thread generates from the same specification object differs from the undisturbed one' % case['kind'],
                              dict(case, choices=list(choices), thread=i), expected='the undisturbed document', observed='differs (%d vs %d characters)' % (len(outs[i] or ''), len(want)))
                break
    rec.traces += n
    rec.states += n
    rec.nontrivial_n += n
    rec.counters['thread schedules'] += n
    return n


def second_stage(ctx):
    blobs = ctx.rec.blobs
    if not blobs:
        raise HarnessError('no documents for the second stage')
    keys = sorted(blobs)
    W = min(ctx.workers, 16)
    tmp = tempfile.mkdtemp(prefix='pjrpc-verif-c16-', dir='/var/tmp')
    procs = []
    try:
        for w in range(W):
            fn = os.path.join(tmp, 'docs%d.jsonl' % w)
            with open(fn, 'w') as f:
                for k in keys[w::W]:
                    kind, text, case = blobs[k]
                    f.write('{"key": "%s", "kind": "%s", "doc": %s}\n' % (k, kind, text))
            procs.append(subprocess.Popen(['python3-vt', os.path.join(VERIF, 'tools', 'validate_docs.py'), fn],
                                          stdout=subprocess.PIPE, stderr=subprocess.PIPE, text=True))
        nfail = 0
        for p in procs:
            out, err = p.communicate()
            lines = [json.loads(l) for l in out.splitlines() if l.strip()]
            if p.returncode != 0 or not lines or not lines[-1].get('done'):
                raise HarnessError('second stage (python3-vt jsonschema) failed: %s' % err[-500:])
            for item in lines[:-1]:
                kind, text, case = blobs[item['key']]
                e = item['errors'][0]
                sp = '/'.join(x for x in e['schema_path'] if not x.isdigit())
                ctx.rec.violation('C16:%s:meta-schema:%s:%s' % (kind, e['validator'], classify(kind, e)), case,
                                  expected='valid against the official %s meta-schema' % kind, observed=item['errors'])
                nfail += 1
        ctx.rec.counters['documents validated against a meta-schema'] = len(keys)
        ctx.rec.counters['documents failing the meta-schema'] = nfail
        ctx.rec.transitions += len(keys)
    finally:
        import shutil
        shutil.rmtree(tmp, ignore_errors=True)


def classify(kind, e):
    """narrow class of a meta-schema failure: where in the document"""
    path = e['path']
    if 'schema' in path or 'schemas' in path:
        return 'inside a JSON schema object (%s)' % ('components' if 'schemas' in path else 'inline')
    return '/'.join(p for p in path if not p.isdigit() and not p.startswith('/'))[:80]


def run(ctx):
    ctx.rule = ('E1+E2: ordered method sets of 1..%d atoms from a %d-atom core (signatures over scalars / Optional / List / Dict / model '
                '/ enum / unannotated, annotation bundles errors / shared errors list / tags+summary / examples / component prefix / '
                'servers+security+deprecated / explicit schemas, docstrings with params / raises / deprecation) x 5 extractor stacks x '
                '{OpenAPI 3.1, OpenAPI 3.0, OpenRPC} x endpoint prefix {"", "/sub", both in one document}, OpenAPI variants {errors mapped to http statuses, document-wide component prefix}%s; 2-3 consecutive generations each; every '
                'document checked for JSON-encodability, closed $refs, completeness, purity, non-interference (differential against '
                'the method documented alone) and validated against the official meta-schema in a second stage. state = one '
                '(method set, configuration) point; non-trivial = sets of 2+ methods'
                % (ctx.pick(2, 3), len(CORE), '' if ctx.quick else '; ordered pairs from the full %d-atom product' % len(FULL)))
    ctx.assumptions += ['meta-schemas vendored from tests/server/resources (OAS 3.0 draft-04, OAS 3.1 2020-12, OpenRPC 1.3.2 draft-07), '
                        'validated by jsonschema 4.x of the tooling venv', 'OpenRPC is generated for the root endpoint only']
    ctx.run_cases('C16', lambda: gen_cases(ctx), run_case, recheck_every=211)
    second_stage(ctx)
    ctx.guard('all three document kinds generated', all(ctx.rec.outcomes.get(k, 0) > 10 for k in KINDS), dict(ctx.rec.outcomes))


def replay(doc):
    from mc.core import Ctx, Recorder, jdump
    rec = Recorder()
    c = doc['case']
    case = {k: c[k] for k in ('set', 'atoms', 'stack', 'kind', 'prefix', 'variant', 'sequence', 'late_error', 'alias', 'integration', 'base', 'layout', 'first', 'budget', 'shard', 'noprefix') if k in c}
    run_case(case, rec)
    ctx = Ctx('C16', 'quick', 0, 1)
    ctx.rec = rec
    second_stage(ctx)
    for v in rec.violations[:8]:
        print('VIOLATION-REPLAY signature=%s\n  expected=%s\n  observed=%s' % (v['signature'], jdump(v['expected'])[:300], jdump(v['observed'])[:400]))
    print('replayed: %d violation(s)' % len(rec.violations))
    return 1 if rec.violations else 0
