"""
C09 - retries are bounded, follow the configured backoff, and return the last outcome.
Mode E3: the transport is the environment; at every send it picks the attempt's outcome; the choice tree is explored
completely for every configuration.  Oracle: reference retry/backoff model S5 (pure python, written from the statement).
"""
import itertools
import json

from pjrpc.common import BatchResponse, Response
from pjrpc.common.exceptions import JsonRpcError

from mc.core import explore_choices
from mc.harness import clientrun as cr

PERIODIC = dict(family='periodic', interval=0.5)


def backoff_specs():
    for spec in list(_backoff_specs()):
        yield spec
    for spec in list(_backoff_specs()):
        if spec.get('jitter') or len(spec) <= 2:
            yield dict(spec, positional=True)


def _backoff_specs():
    yield dict(family='periodic', interval=0)
    yield dict(family='periodic', interval=0.5)
    yield dict(family='periodic', interval=0.5, jitter=[0.25, 0.5, 0.125])
    yield dict(family='periodic')                                      # default interval
    for base, factor in ((1.0, 2.0), (0.5, 3.0), (2.0, 1.0), (0.25, 0.5)):
        for cap in (None, base / 2, base * factor * 1.5, 10 ** 6, 0, 0.0):
            for jit in (None, [0.25, 0.5, 0.125]):
                yield dict(family='exponential', base=base, factor=factor, max_value=cap, jitter=jit)
    yield dict(family='exponential')                                   # defaults
    for mult in (1.0, 0.5, 3.0):
        for cap in ('default', None, mult / 2, mult * 2.5, 10 ** 6, 0):
            for jit in (None, [0.25, 0.5, 0.125]):
                d = dict(family='fibonacci', multiplier=mult, jitter=jit)
                if cap != 'default':
                    d['max_value'] = cap
                yield d
    yield dict(family='fibonacci')


def ref_delays(spec, n):
    """-> list of acceptable delay lists (L7: two Fibonacci indexings)"""
    jit = spec.get('jitter') or [0.0]
    j = lambda k: jit[k % len(jit)]   # noqa
    f = spec['family']
    if f == 'periodic':
        return [[spec.get('interval', 1.0) + j(k) for k in range(n)]]
    if f == 'exponential':
        base, factor, cap = spec.get('base', 1.0), spec.get('factor', 2.0), spec.get('max_value')
        out = [base * factor ** k + j(k) for k in range(n)]
        return [[min(cap, v) if cap is not None else v for v in out]]
    mult = spec.get('multiplier', 1.0)
    cap = spec.get('max_value', 1.0) if 'max_value' in spec else 1.0
    alts = []
    for a, b in ((1, 2), (1, 1)):
        fib = []
        for _ in range(n):
            fib.append(a)
            a, b = b, a + b
        out = [mult * x + j(k) for k, x in enumerate(fib)]
        alts.append([min(cap, v) if cap is not None else v for v in out])
    return alts


def effective_strategy(cfg):
    rs = cfg.get('request_strategy', 'unset')
    if isinstance(rs, str) and rs == 'unset':
        return cfg.get('client_strategy')
    return rs


LISTED_BY = {
    'code_listed': ('code', cr.C1), 'code_listed2': ('code', cr.C2), 'code_unlisted': ('code', cr.CU),
    'level_listed': ('code', cr.C1), 'level_listed2': ('code', cr.C2), 'level_unlisted': ('code', cr.CU),
    'exc_same': ('exc', cr.E1), 'exc_listed': ('exc', cr.E1), 'exc_sub': ('exc', cr.SubE1), 'exc_listed2': ('exc', cr.E2), 'exc_unlisted': ('exc', cr.EU),
    'notjson': ('exc', ValueError), 'notresp': ('exc', ValueError), 'identity': ('exc', Exception),
}


def is_listed(strategy, name):
    if strategy is None or name in ('ok', 'ok_empty', 'notif_reply_listed', 'elem_listed', 'elem_error'):
        return False
    kind, what = LISTED_BY[name]
    if kind == 'code':
        codes = cr.CODESETS[strategy['codes']]
        if strategy['codes'] == 'zero':
            return name in ('code_listed', 'level_listed')       # the listed code is 0 in these configurations
        return bool(codes) and what in codes
    excs = cr.EXCSETS[strategy['excs']]
    return bool(excs) and any(issubclass(what, e) for e in excs)


def ref_run(cfg, names):
    """reference S5 on the scripted outcome names -> (number of sends, number of sleeps, final outcome name)"""
    st = effective_strategy(cfg)
    n = st['attempts'] if st else 0
    sends = sleeps = 0
    for name in names:
        sends += 1
        if is_listed(st, name) and sleeps < n:
            sleeps += 1
            continue
        return sends, sleeps, name
    return sends, sleeps, None     # script exhausted: the implementation sent more than the reference


def final_matches(cfg, obs, name, k):
    """does the value / exception reaching the caller equal the outcome of attempt k (the last one)?"""
    kind, v = obs['outcome']
    body = obs['script'][k][1]
    rk = cfg['request']
    via_send = obs['request'] is not None
    if isinstance(body, BaseException):
        return kind == 'exc' and v is body
    if name in ('ok', 'ok_empty', 'notif_reply_listed'):
        if rk in ('notification', 'notifbatch'):
            return kind == 'ok' and v is None
        if via_send:
            if kind != 'ok':
                return False
            if rk == 'batch':
                return isinstance(v, BatchResponse) and [r.result for r in v] == [{'attempt': k, 'id': 1}, {'attempt': k, 'id': 2}]
            return isinstance(v, Response) and v.result == {'attempt': k, 'id': 1}
        if rk == 'batch':
            return kind == 'ok' and v == ({'attempt': k, 'id': 1}, {'attempt': k, 'id': 2})
        return kind == 'ok' and v == {'attempt': k, 'id': 1}
    if name == 'elem_error':
        if via_send:
            return kind == 'ok' and isinstance(v, BatchResponse) and v[1].is_error and v[1].error.code == cr.CU
        return kind == 'exc' and isinstance(v, JsonRpcError) and v.code == cr.CU
    if name == 'elem_listed':
        # a response array is an answered batch whatever its elements say: batch.call raises the element's error, nothing is re-sent
        if via_send:
            return kind == 'ok' and isinstance(v, BatchResponse) and v[0].is_error and v[0].error.code == cr.C1
        return kind == 'exc' and isinstance(v, JsonRpcError) and v.code == cr.C1 and v.message == 'attempt %d' % k
    if name in ('notjson', 'notresp', 'identity'):
        # the attempt ended in an exception raised by the client while reading the answer
        from pjrpc.common.exceptions import DeserializationError, IdentityError
        want_cls = {'notjson': ValueError, 'notresp': DeserializationError, 'identity': IdentityError}[name]
        return kind == 'exc' and isinstance(v, want_cls)
    code = LISTED_BY[name][1]
    if cfg.get('zero_code') and name in ('code_listed', 'level_listed'):
        code = 0
    if via_send:
        if kind != 'ok' or not v.is_error:
            return False
        e = v.error
    else:
        if kind != 'exc' or not isinstance(v, JsonRpcError):
            return False
        e = v
    return e.code == code and e.message == 'attempt %d' % k and e.data == {'attempt': k}


def close(a, b):
    return len(a) == len(b) and all(abs(x - y) <= 1e-9 * max(1.0, abs(y)) for x, y in zip(a, b))


def check_execution(cfg, choices, obs, rec):
    names = [n for n, _ in obs['script']]
    sig = None
    if 'HORIZON' in names:
        return viol(rec, cfg, choices, 'C09:request sent more than n+1 times', 'at most n+1 sends', names)
    sends, sleeps, final = ref_run(cfg, names)
    st = effective_strategy(cfg)
    if final is None or sends != len(names):
        # did the implementation stop earlier / later than the reference?
        # lenient reading for notifications + listed exception: immediate re-raise also allowed
        if cfg['request'] in ('notification', 'notifbatch') and len(names) == 1 and is_listed(st, names[0]) \
                and obs['outcome'][0] == 'exc' and obs['outcome'][1] is obs['script'][0][1] and not obs['sleeps']:
            return 'notif-immediate'
        return viol(rec, cfg, choices, 'C09:number of sends differs from the reference (%s)' % (
            'more' if final is None or len(names) > sends else 'fewer'), sends, len(names))
    if len(obs['sends']) != len(names):
        return viol(rec, cfg, choices, 'C09:transport call log inconsistent', len(names), len(obs['sends']))
    # identical request text on every attempt
    if len({t for t, _, _ in obs['sends']}) > 1:
        return viol(rec, cfg, choices, 'C09:re-sent request differs from the first one', obs['sends'][0][0], [t for t, _, _ in obs['sends']])
    # pauses
    got = [d for _, d in obs['sleeps']]
    kinds = {k for k, _ in obs['sleeps']}
    if kinds - {cfg['kind']}:
        return viol(rec, cfg, choices, 'C09:wrong kind of sleep used', cfg['kind'], sorted(kinds))
    if st is None:
        want = [[]]
    else:
        want = [d[:sleeps] for d in ref_delays(st['backoff'], st['attempts'])]
    if not any(close(got, w) for w in want):
        fam = st['backoff']['family'] if st else 'none'
        return viol(rec, cfg, choices, 'C09:pauses differ from the backoff schedule (%s, %s)' % (
            fam, 'count' if len(got) != len(want[0]) else 'values'), want, got)
    if cfg['kind'] == 'async' and obs['loop_sleeps'] is not None:
        adv = [x for x in obs['loop_sleeps']]
        if not close(adv, [d for d in got if d > 0]):
            return viol(rec, cfg, choices, 'C09:virtual clock advances differ from the requested delays', got, adv)
    # last outcome unchanged
    if not final_matches(cfg, obs, final, len(names) - 1):
        k, v = obs['outcome']
        return viol(rec, cfg, choices, 'C09:caller did not receive the last attempt\'s outcome (%s)' % (
            'notification' if cfg['request'] in ('notification', 'notifbatch') else final.split('_')[0]),
            'outcome of attempt %d: %s' % (len(names) - 1, final), (k, repr(v)[:200]))
    return (sends, sleeps, final)


def viol(rec, cfg, choices, sig, expected, observed):
    if cfg.get('later_request'):
        sig += ' [second request of one long-lived client]'
        cfg = {k: v for k, v in cfg.items() if k != 'later_request'}
    rec.violation(sig, dict(cfg=cfg, choices=list(choices)), expected=expected, observed=observed)
    return 'bad:' + sig


def gen_cases(ctx):
    N = ctx.pick(4, 6)
    # (A) outcome trees
    for n in range(0, N + 1):
        for codes, excs in itertools.product(cr.CODESETS, cr.EXCSETS):
            if codes == 'zero':
                continue          # code 0 has its own configurations below
            for rk in ('single', 'batch', 'notification', 'notifbatch'):
                for kind in ('sync', 'async'):
                    drop = []
                    if codes != 'two':
                        drop += ['code_listed2', 'level_listed2']
                    if excs != 'two':
                        drop += ['exc_listed2']
                    yield dict(part='A', kind=kind, request=rk, via='call', drop=drop,
                               client_strategy=dict(attempts=n, codes=codes, excs=excs, backoff=PERIODIC))
                    if rk in ('notification', 'notifbatch') and n <= 2:
                        # a lenient (strict=False) client: whatever the server answers to a notification is not an outcome to retry on
                        yield dict(part='A', kind=kind, request=rk, via='call', drop=drop, strict=False,
                                   client_strategy=dict(attempts=n, codes=codes, excs=excs, backoff=PERIODIC))
                        yield dict(part='A', kind=kind, request=rk, via='send', drop=drop, strict=False,
                                   client_strategy=dict(attempts=n, codes=codes, excs=excs, backoff=PERIODIC))
    # (B) backoff arithmetic (deep, few outcomes)
    for spec in backoff_specs():
        for n in range(0, ctx.pick(4, 7)):
            for kind in ('sync', 'async'):
                yield dict(part='B', kind=kind, request='single', via='call',
                           drop=['code_listed2', 'exc_listed2', 'exc_sub', 'exc_unlisted', 'code_unlisted'],
                           client_strategy=dict(attempts=n, codes='one', excs='one', backoff=spec))
    # (C) placement of the strategy
    S = lambda n, codes='one', excs='one', b=PERIODIC: dict(attempts=n, codes=codes, excs=excs, backoff=b)   # noqa
    placements = [
        ('none', None, 'unset'), ('client', S(2), 'unset'), ('request', None, S(2)),
        ('override-more', S(1), S(2, b=dict(family='periodic', interval=0.25))),
        ('override-less', S(2), S(0)), ('override-codes', S(2, codes='one'), S(2, codes='empty', excs='empty')),
        ('disabled', S(2), None),
        # the per-request strategy lists codes only / exceptions only: it REPLACES the client-wide one, nothing is merged in
        ('request-codes-only', S(2, codes='none', excs='one'), S(2, codes='one', excs='none')),
        ('request-excs-only', S(2, codes='one', excs='none'), S(2, codes='none', excs='one')),
    ]
    for n in (0, 1, 2):
        for strategy in (True, False):
            yield dict(part='F', attempts=n, strategy=strategy)
    for kind in ('sync', 'async'):
        for n in (1, 2):
            # the listed code is 0; a batch answered with an array in which one call failed with a listed code
            for rk in ('single', 'batch'):
                yield dict(part='A', kind=kind, request=rk, via='call', zero_code=True, drop=['code_listed2', 'level_listed2', 'exc_listed2', 'exc_sub'],
                           client_strategy=dict(attempts=n, codes='zero', excs='one', backoff=PERIODIC))
            for via in ('call', 'send'):
                yield dict(part='A', kind=kind, request='batch', via=via, elem_errors=True, drop=['code_listed2', 'level_listed2', 'exc_listed2', 'exc_sub', 'exc_unlisted', 'level_unlisted'],
                           client_strategy=dict(attempts=n, codes='one', excs='one', backoff=PERIODIC))
        # attempts that take (virtual) time themselves: the pauses are the same
        for spec in (PERIODIC, dict(family='exponential', base=1.0, factor=2.0)):
            for n in (1, 2, 3):
                yield dict(part='B', kind=kind, request='single', via='call', attempt_takes=100.0,
                           drop=['code_listed2', 'exc_listed2', 'exc_sub', 'exc_unlisted', 'code_unlisted'],
                           client_strategy=dict(attempts=n, codes='one', excs='one', backoff=spec))
    yield from gen_repeat(ctx)
    yield from gen_churn(ctx)
    yield from gen_httpx(ctx)
    # (E) failures raised by the client itself while reading the answer (not JSON, not a response, identity mismatch) are attempts
    #     that ended in an exception like any other: re-sent iff the exception type is listed
    for n in (0, 1, 2):
        for excs in ('wide', 'one', 'none'):
            for rk in ('single', 'batch'):
                for kind in ('sync', 'async'):
                    yield dict(part='E', kind=kind, request=rk, via='call', c19=True,
                               drop=['code_listed2', 'level_listed2', 'exc_listed2', 'exc_sub', 'base', 'code_unlisted', 'level_unlisted'],
                               client_strategy=dict(attempts=n, codes='one', excs=excs, backoff=PERIODIC))
    for name, cs, rs in placements:
        for rk in ('single', 'batch', 'notification'):
            for kind in ('sync', 'async'):
                yield dict(part='C', placement=name, kind=kind, request=rk, via='send', drop=['code_listed2', 'level_listed2', 'exc_listed2'],
                           client_strategy=cs, request_strategy=rs)


def gen_httpx(ctx):
    for backend in ('httpx', 'httpx-async'):
        for n in range(0, ctx.pick(3, 4)):
            yield dict(part='F', attempts=n, backend=backend)


def gen_churn(ctx):
    for kind in ('sync', 'async'):
        for pattern in ('cycle', 'mixed'):
            yield dict(part='churn', kind=kind, pattern=pattern, rounds=ctx.pick(4, 12))


def gen_repeat(ctx):
    """(D) two requests in a row through one long-lived client / one long-lived strategy object"""
    drop = ['code_listed2', 'level_listed2', 'exc_listed2', 'exc_sub', 'exc_unlisted', 'code_unlisted', 'level_unlisted']
    for n in (1, 2) if ctx.quick else (1, 2, 3):
        for spec in (PERIODIC, dict(family='exponential', base=1.0, factor=2.0), dict(family='fibonacci', multiplier=1.0, max_value=None)):
            for rk in ('single', 'batch', 'notification'):
                for kind in ('sync', 'async'):
                    st = dict(attempts=n, codes='one', excs='one', backoff=spec)
                    yield dict(part='D', kind=kind, request=rk, via='call', drop=drop, client_strategy=st, repeat=2)
                    yield dict(part='D', kind=kind, request=rk, via='send', drop=drop, client_strategy=None, request_strategy=st, repeat=2)


def run_physical(cfg, rec):
    """(F) the real requests backend with its DEFAULT session: the environment answers every physical HTTP request (the call
    into urllib3's connection pool is scripted: 'the connection breaks after the request was written' or a JSON-RPC reply); the
    number of requests that reach the wire must be the number of attempts the retry strategy allows - no hidden re-sending"""
    import io
    from http.client import RemoteDisconnected
    from urllib3.connectionpool import HTTPConnectionPool
    from urllib3.exceptions import ProtocolError
    from urllib3.response import HTTPResponse
    import requests
    from pjrpc.client.backend import requests as br
    from mc import sleeplog
    n = cfg['attempts']
    leaves = 0
    orig = HTTPConnectionPool._make_request
    def once(env):
        sends = []
        script = []

        def fake_make_request(self, conn, method, url, body=None, headers=None, **kw):
            k = len(sends)
            sends.append((method, url, body))
            if k > n + 2:
                raise AssertionError('horizon')
            what = ('break', 'ok', 'err')[env.choose(('physical send', k), 3)]
            script.append(what)
            if what == 'break':
                raise ProtocolError('Connection aborted.', RemoteDisconnected('Remote end closed connection without response'))
            doc = json.loads(body)
            reply = dict(jsonrpc='2.0', id=doc['id'])
            if what == 'ok':
                reply['result'] = k
            else:
                reply['error'] = dict(code=cr.C1, message='attempt %d' % k)
            payload = json.dumps(reply).encode()
            return HTTPResponse(body=io.BytesIO(payload), headers={'Content-Type': 'application/json', 'Content-Length': str(len(payload))},
                                status=200, preload_content=False, decode_content=False, request_method=method)
        HTTPConnectionPool._make_request = fake_make_request
        sleeplog.take()
        try:
            st = cr.R.RetryStrategy(backoff=cr.R.PeriodicBackoff(attempts=n, interval=0.5), codes={cr.C1}, exceptions={requests.ConnectionError}) if cfg['strategy'] else None
            client = br.Client('http://rpc.test/api', **({'retry_strategy': st} if st else {}))
            try:
                out = ('ok', client.call('m', 1))
            except BaseException as e:   # noqa
                out = ('exc', type(e).__name__)
        finally:
            HTTPConnectionPool._make_request = orig
        return sends, script, out, sleeplog.take()
    for choices, (sends, script, out, sleeps) in explore_choices(once, max_exec=20000):
        leaves += 1
        rec.transitions += len(sends)
        # reference: every logical attempt is exactly one physical request; 'break' / 'err' are retried while attempts remain
        allowed = (n if cfg['strategy'] else 0) + 1
        want_sends = 0
        final = None
        for what in script:
            want_sends += 1
            final = what
            if what == 'ok' or want_sends >= allowed:
                break
        c = dict(cfg=cfg, choices=list(choices))
        if len(sends) != want_sends or script[:want_sends] != script:
            rec.violation('C09:physical:the number of HTTP requests on the wire differs from the number of attempts (requests backend, default session)', c,
                          expected=want_sends, observed=dict(wire=len(sends), answers=script))
            continue
        if len(sleeps) != want_sends - 1:
            rec.violation('C09:physical:a request was re-sent without the configured pause', c, expected=want_sends - 1, observed=len(sleeps))
            continue
        want_out = {'ok': 'ok', 'break': 'exc', 'err': 'exc'}[final]
        if out[0] != want_out or (final == 'break' and out[1] != 'ConnectionError'):
            rec.violation('C09:physical:caller did not receive the last attempt\'s outcome', c, expected=(final, want_out), observed=out)
        rec.outcomes['physical sends=%d final=%s' % (len(sends), final)] += 1
    rec.traces += leaves
    rec.states += leaves
    rec.nontrivial_n += leaves
    rec.counters['part F'] += leaves
    return leaves


def run_physical_httpx(cfg, rec):
    """(F') the real httpx backends (sync / async) over httpx' in-process transport: the server answers 429 / 503 with a Retry-After header,
    or a JSON-RPC reply; HTTPStatusError is listed. The pauses are the backoff's and nothing else, none after the last send"""
    import httpx
    from mc import sleeplog
    from mc.harness.backends import ASYNC, make_backend_client
    from mc.harness.client import run as drive
    n, name = cfg['attempts'], cfg['backend']
    leaves = 0

    def once(env):
        sends, script = [], []

        def handler(req):
            k = len(sends)
            sends.append(req['body'])
            if k > n + 2:
                raise AssertionError('horizon')
            what = ('ok', '429', '503')[env.choose(('http answer', k), 3)]
            script.append(what)
            if what == 'ok':
                doc = json.loads(req['body'])
                return 200, [('Content-Type', 'application/json')], json.dumps(dict(jsonrpc='2.0', id=doc['id'], result=k)).encode()
            return int(what), [('Retry-After', '7'), ('Content-Type', 'text/plain')], b'slow down'
        st = cr.R.RetryStrategy(backoff=cr.R.PeriodicBackoff(attempts=n, interval=0.5), exceptions={httpx.HTTPStatusError})
        client = make_backend_client(name, handler, retry_strategy=st)
        sleeplog.take()
        out = drive('async' if ASYNC[name] else 'sync', lambda: client.call('m', 1))
        return sends, script, (out[0], out[1] if out[0] == 'ok' else type(out[1]).__name__), [x[1] for x in sleeplog.take()]
    for choices, (sends, script, out, sleeps) in explore_choices(once, max_exec=20000):
        leaves += 1
        rec.transitions += len(sends)
        want_sends, final = 0, None
        for what in script:
            want_sends += 1
            final = what
            if what == 'ok' or want_sends >= n + 1:
                break
        c = dict(cfg=cfg, choices=list(choices))
        if len(sends) != want_sends:
            rec.violation('C09:physical:the number of HTTP requests differs from the number of attempts (%s backend)' % name, c, expected=want_sends, observed=dict(wire=len(sends), answers=script))
        elif [round(x, 6) for x in sleeps] != [0.5] * (want_sends - 1):
            rec.violation('C09:physical:the pauses are not the successive delays of the configured backoff (%s backend, replies carrying Retry-After)' % name, c,
                          expected=[0.5] * (want_sends - 1), observed=sleeps)
        elif (out[0] == 'ok') != (final == 'ok') or (final != 'ok' and out[1] != 'HTTPStatusError'):
            rec.violation('C09:physical:caller did not receive the last attempt\'s outcome (%s backend)' % name, c, expected=final, observed=out)
        rec.outcomes['physical httpx sends=%d final=%s' % (len(sends), final)] += 1
    rec.traces += leaves
    rec.states += leaves
    rec.nontrivial_n += leaves
    rec.counters['part F'] += leaves
    return leaves


def run_churn(cfg, rec):
    """short-lived per-request strategies on ONE long-lived client: each request is made with a strategy object of its own (created for the
    request, dropped afterwards, so that the next one may live at the same address) listing ITS code / exception; request k must be re-sent
    exactly as strategy k prescribes, whatever the strategies before it listed"""
    import gc
    import json as _json
    from mc.harness.client import make_client
    from mc.harness.client import run as drive
    from mc import sleeplog
    kind = cfg['kind']
    state = dict(fault=None, left=0, sends=0)

    class EA(Exception):
        pass

    class EB(Exception):
        pass

    def responder(text, is_notif, kw):
        state['sends'] += 1
        doc = _json.loads(text)
        if state['left'] > 0:
            state['left'] -= 1
            if isinstance(state['fault'], int):
                return _json.dumps({'jsonrpc': '2.0', 'id': doc['id'], 'error': {'code': state['fault'], 'message': 'try again'}})
            raise state['fault']('transient')
        return _json.dumps({'jsonrpc': '2.0', 'id': doc['id'], 'result': 'done'})
    client = make_client(kind, responder)
    plans = [(dict(codes={2000}), 2000), (dict(codes={2001}), 2001), (dict(exceptions={EA}), EA), (dict(exceptions={EB}), EB), (dict(codes={2001}), 2000), (dict(exceptions={EA}), EB)]
    order = [plans[i % len(plans)] for i in range(cfg['rounds'] * len(plans))] if cfg['pattern'] == 'cycle' else [plans[(i * 5 + i // 3) % len(plans)] for i in range(cfg['rounds'] * len(plans))]
    bad = None
    for k, (lists, fault) in enumerate(order):
        listed = (fault in lists.get('codes', ())) or (not isinstance(fault, int) and fault in lists.get('exceptions', ()))
        state.update(fault=fault, left=2, sends=0)
        sleeplog.take()
        strategy = cr.R.RetryStrategy(backoff=cr.R.PeriodicBackoff(attempts=3, interval=0.5), **lists)
        out = drive(kind, lambda: client.send(cr.Request('m', [k], id=k + 1), _retry_strategy=strategy))
        del strategy
        gc.collect()
        rec.transitions += state['sends']
        want_sends = 3 if listed else 1
        pauses = [round(x[1], 6) for x in sleeplog.take()]
        ok = state['sends'] == want_sends and pauses == [0.5] * (want_sends - 1)
        if ok and listed:
            ok = out[0] == 'ok' and getattr(out[1], 'result', None) == 'done'
        if not ok and bad is None:
            bad = (k, dict(lists={a: sorted(getattr(x, '__name__', x) for x in b) for a, b in lists.items()}, fault=getattr(fault, '__name__', fault)), want_sends, state['sends'], pauses)
    if bad:
        rec.violation('C09:churn:a request was not re-sent as its own per-request strategy lists (strategy objects come and go on one client)', dict(cfg, request=bad[0], strategy=bad[1]),
                      expected='%d sends' % bad[2], observed=dict(sends=bad[3], pauses=bad[4]))
    rec.traces += len(order)
    rec.states += len(order)
    rec.nontrivial_n += len(order)
    rec.counters['part churn'] += len(order)
    return bad is None


def run_case(cfg, rec):
    if cfg.get('part') == 'F' and cfg.get('backend'):
        return run_physical_httpx(cfg, rec)
    if cfg.get('part') == 'F':
        return run_physical(cfg, rec)
    if cfg.get('part') == 'churn':
        return run_churn(cfg, rec)
    leaves = 0
    summary = []
    for choices, obs in explore_choices(lambda env: cr.execute(cfg, env), max_exec=200000):
        r = check_execution(cfg, choices, obs, rec)
        for later in obs.get('later', ()):
            # a later request made through the same long-lived client (and strategy object) is judged on its own
            r2 = check_execution(dict(cfg, later_request=True), choices, later, rec)
            if isinstance(r2, str) and r2.startswith('bad:'):
                r = r2
        leaves += 1
        rec.transitions += len(obs['script'])
        rec.outcomes[str(r) if isinstance(r, str) else 'sends=%d sleeps=%d final=%s' % r] += 1
        if isinstance(r, tuple) and r[1] > 0:
            rec.nontrivial_n += 1
        summary.append(cr.summarize(obs)[:4])
    rec.traces += leaves
    rec.states += leaves
    rec.counters['configs'] += 1
    rec.counters['part ' + cfg['part']] += leaves
    return (leaves, hash(tuple(summary)))


def run(ctx):
    ctx.rule = ('E3: for every configuration the complete tree of per-attempt outcomes chosen by the transport is executed '
                '(success, listed / second listed / unlisted code or batch-level error, listed / subclass / second listed / '
                'unlisted exception). (A) attempts 0..%d x codes {None, {}, one, two} x exceptions {None, {}, one, two} x '
                '{single, batch, notification, all-notification batch} x sync/async; (B) %d backoff parameterisations '
                '(periodic / exponential / Fibonacci, caps below / between / above, scripted jitter) x attempts 0..%d; '
                '(C) 7 placements (none, client-wide, per-request, overriding, disabled) x request kind. state = one complete '
                'execution (leaf of a choice tree); non-trivial = at least one retry happened'
                % (ctx.pick(4, 6), len(list(backoff_specs())), ctx.pick(3, 6)))
    ctx.assumptions += ['L7: Fibonacci 1,2,3,5.. or 1,1,2,3..; time.sleep / asyncio.sleep are the only clocks (replaced by recorders)',
                        'element-level errors inside a batch are not retry triggers in either reading and are not in the alphabet',
                        'a notification whose send raises a listed exception may be retried or re-raised at once']
    ctx.run_cases('C09', lambda: gen_cases(ctx), run_case, recheck_every=37)
    ctx.guard('retries happened and were exhausted', ctx.rec.nontrivial_n > 100, ctx.rec.nontrivial_n)


def replay(doc):
    from mc.core import Env, Recorder, jdump
    rec = Recorder()
    cfg, choices = doc['case']['cfg'], doc['case']['choices']
    obs = cr.execute(cfg, Env(tuple(choices)))
    r = check_execution(cfg, choices, obs, rec)
    print('script:', [n for n, _ in obs['script']], 'sleeps:', obs['sleeps'], 'outcome:', repr(obs['outcome'])[:200])
    for v in rec.violations[:5]:
        print('VIOLATION-REPLAY signature=%s\n  expected=%s\n  observed=%s' % (v['signature'], jdump(v['expected'])[:300], jdump(v['observed'])[:300]))
    print('replayed: %d violation(s)' % len(rec.violations))
    return 1 if rec.violations else 0
