"""
C15 - methods are reachable under exactly their registered names, private ones never.
Mode E2: breadth-first search over registration histories on real MethodRegistry objects (rebuilt per history, merge
operands are themselves reachable registries), canonical state = (registry prefix, sorted name -> function map), in
lock-step with a dict reference model; every canonical state is attached to both dispatchers and probed by dispatching:
every modelled name must reach exactly its function, every near-miss / private / dunder / non-callable name must get -32601.
"""
import enum
import functools
import itertools
import json

import pjrpc
import pjrpc.server
from pjrpc.server import Method, MethodRegistry

from mc.core import HarnessError
from mc.vloop import VLoop


def f1():
    return 'f1'


def f2():
    return 'f2'


def f3():
    return 'f3'


class _CountingDecorator:
    """a class based decorator that still binds like a function (descriptor)"""
    def __init__(self, fn):
        self.fn = fn
        self.__name__ = fn.__name__
        self.__doc__ = fn.__doc__

    def __call__(self, *args, **kwargs):
        return self.fn(*args, **kwargs)

    def __get__(self, obj, objtype=None):
        return functools.partial(self.__call__, obj) if obj is not None else self


class Auditable:
    """a plain mixin (not a view) contributing a public method"""
    def audit(self):
        return 'V.audit'

    def _audit_private(self):
        return 'V._audit_private'


class BaseV(pjrpc.server.ViewMixin):
    def inh(self):
        return ('V.inh' if isinstance(self, V) else 'BaseV.inh')


class V(Auditable, BaseV):
    data = 5                     # non-callable

    def __init__(self, context=None):
        super().__init__()

    def pub1(self):
        return 'V.pub1'

    def pub2(self):
        return 'V.pub2'

    @staticmethod
    def st():
        return 'V.st'

    def _hidden(self):
        return 'V._hidden'

    def __secret__(self):
        return 'V.__secret__'

    # public members that are callable without being plain functions: a method behind functools.lru_cache, one behind a class based decorator
    @functools.lru_cache(maxsize=None)
    def cached(self):
        return 'V.cached'

    @_CountingDecorator
    def counted(self):
        return 'V.counted'


class BaseW(pjrpc.server.ViewMixin):
    def inh(self):
        return 'W.inh'


class W(BaseW):
    """derived from a view that was registered (somewhere else in the process) BEFORE this one"""
    def wpub(self):
        return 'W.wpub'


MethodRegistry().view(BaseW)      # the base view is in use elsewhere first

FUNCS = dict(f1=f1, f2=f2, f3=f3)
VIEW_PUBLIC = {'pub1': 'V.pub1', 'pub2': 'V.pub2', 'st': 'V.st', 'inh': 'V.inh', 'audit': 'V.audit', 'cached': 'V.cached', 'counted': 'V.counted'}
VIEW_FORBIDDEN = ['_hidden', '__secret__', 'data', '__methods__', '__init__', '__class__', '_audit_private']
PREFIXES = [None, 'a', 'a.b']

# primitive operations (merge is added dynamically)
OPS = [('add', 'f1', None), ('add', 'f2', None), ('add', 'f1', 'x'), ('add', 'f2', 'x'), ('add', 'f1', 'f2'),
       ('add_methods', 'f1', None), ('add_method_obj', 'f2', 'y'), ('view', None), ('view', 'v'),
       # the decorator-factory spellings @registry.add(name=..) / @registry.view(prefix=..), and the base view on its own
       ('add_deco', 'f2', 'x'), ('view_deco', 'v'), ('view_deco', None), ('viewbase', None), ('view2', None),
       # ONE decorator object obtained from registry.add() and applied to two functions
       ('add_deco2', 'f1', 'f2'), ('add_deco2', 'f2', 'f3'),
       # the explicit name is a member of a (str, Enum) enumeration of method names: its VALUE is the name
       ('add_enum', 'f3', 'e')]


class RpcName(str, enum.Enum):
    e = 'e'
    x = 'x'


def join(*parts):
    return '.'.join(p for p in parts if p)


def apply_model(model, prefix, op):
    """reference S6: dict name -> tag; later registration replaces"""
    m = dict(model)
    kind = op[0]
    if kind == 'add':
        m[join(prefix, op[2] or op[1])] = op[1]
    elif kind == 'add_enum':
        m[join(prefix, op[2])] = op[1]
    elif kind == 'add_methods':
        m[join(prefix, op[1])] = op[1]
    elif kind == 'add_method_obj':
        m[op[2]] = op[1]          # only used on registries without prefix (see DESIGN: both readings agree there)
    elif kind == 'add_deco':
        m[join(prefix, op[2])] = op[1]
    elif kind == 'add_deco2':
        m[join(prefix, op[1])] = op[1]
        m[join(prefix, op[2])] = op[2]
    elif kind in ('view', 'view_deco'):
        for name, tag in VIEW_PUBLIC.items():
            m[join(prefix, op[1], name)] = tag
    elif kind == 'viewbase':
        m[join(prefix, 'inh')] = 'BaseV.inh'
    elif kind == 'view2':
        m[join(prefix, 'inh')] = 'W.inh'
        m[join(prefix, 'wpub')] = 'W.wpub'
    elif kind == 'merge':
        for name, tag in op[1][1].items():       # operand = (history, model, prefix)
            m[join(prefix, name)] = tag
    return m


def apply_real(reg, op):
    kind = op[0]
    if kind == 'add':
        if op[2] is None:
            reg.add(FUNCS[op[1]])
        else:
            reg.add(FUNCS[op[1]], name=op[2])
    elif kind == 'add_enum':
        reg.add(FUNCS[op[1]], name=RpcName[op[2]])
    elif kind == 'add_methods':
        reg.add_methods(FUNCS[op[1]])
    elif kind == 'add_method_obj':
        reg.add_methods(Method(FUNCS[op[1]], name=op[2]))
    elif kind == 'view':
        if op[1] is None:
            reg.view(V)
        else:
            reg.view(V, prefix=op[1])
    elif kind == 'add_deco':
        reg.add(name=op[2])(FUNCS[op[1]])
    elif kind == 'add_deco2':
        deco = reg.add()
        deco(FUNCS[op[1]])
        deco(FUNCS[op[2]])
    elif kind == 'view_deco':
        (reg.view(prefix=op[1]) if op[1] is not None else reg.view())(V)
    elif kind == 'viewbase':
        reg.view(BaseV)
    elif kind == 'view2':
        reg.view(W)
    elif kind == 'merge':
        reg.merge(build(op[1][2], op[1][0]))


def build(prefix, history):
    reg = MethodRegistry(prefix=prefix)
    for op in history:
        apply_real(reg, op)
    return reg


def tag_of(method):
    fn = method.method
    if getattr(method, 'view_cls', None) is not None:
        return {'BaseV': 'BaseV.', 'W': 'W.', 'BaseW': 'W.'}.get(method.view_cls.__name__, 'V.') + method.method_name
    return fn.__name__


def real_map(reg):
    return {name: tag_of(reg[name]) for name in reg}


def depth_of(history):
    return 1 + max([depth_of(op[1][0]) for op in history if op[0] == 'merge'] or [0])


def cost_of(history):
    return sum(1 + (cost_of(op[1][0]) if op[0] == 'merge' else 0) for op in history)


def bfs(max_cost, max_depth=3):
    """-> (list of canonical states, transitions, violations found while searching)"""
    seen = {}
    order = []
    viols = []
    transitions = 0
    levels = {0: [(p, ()) for p in PREFIXES]}
    for p in PREFIXES:
        seen[(p, ())] = dict(prefix=p, history=(), model={})
        order.append((p, ()))
    by_cost = {0: list(order)}
    for c in range(0, max_cost):
        for key in list(by_cost.get(c, [])):
            st = seen[key]
            prefix, hist, model = st['prefix'], st['history'], st['model']
            ops = [op for op in OPS if not (op[0] == 'add_method_obj' and prefix is not None)]
            # merges with every canonical registry cheap enough (operands are reachable registries)
            for c2 in range(0, max_cost - c):
                for k2 in by_cost.get(c2, []):
                    o = seen[k2]
                    if c + 1 + c2 <= max_cost and depth_of(o['history']) + 1 <= max_depth and o['model']:
                        ops.append(('merge', (o['history'], o['model'], o['prefix'])))
            for op in ops:
                newcost = c + 1 + (cost_of(op[1][0]) if op[0] == 'merge' else 0)
                if newcost > max_cost:
                    continue
                nhist = hist + (op,)
                nmodel = apply_model(model, prefix, op)
                reg = build(prefix, nhist)
                transitions += 1
                rm = real_map(reg)
                if rm != nmodel:
                    viols.append(dict(prefix=prefix, history=show(nhist), expected=nmodel, observed=rm, op=op[0]))
                ckey = (prefix, tuple(sorted(rm.items())))
                if ckey not in seen:
                    seen[ckey] = dict(prefix=prefix, history=nhist, model=nmodel)
                    order.append(ckey)
                    by_cost.setdefault(newcost, []).append(ckey)
    return [seen[k] for k in order], transitions, viols


def show(history):
    out = []
    for op in history:
        if op[0] == 'merge':
            out.append(['merge', dict(prefix=op[1][2], history=show(op[1][0]))])
        else:
            out.append(list(op))
    return out


def near_misses(names):
    out = set()
    for n in names:
        parts = n.split('.')
        out.add('.'.join(parts[1:]))          # drop a prefix segment
        out.add('.'.join(parts[:-1]))
        out.add('a.' + n)
        out.add('z.' + n)
        out.add(n[:-1])
        out.add(n + 'x')
        out.add(n.upper())
        out.add(n.capitalize())
        out.add('.' + n)
        out.add(n + '.')
        out.add(n.replace('.', '..'))
        out.add(n.replace('.', ''))
    for pre in (None, 'a', 'a.b', 'v', 'a.v', 'a.b.v'):
        for m in VIEW_FORBIDDEN:
            out.add(join(pre, m))
    out.update(['', 'V', 'V.pub1', 'pub1.', 'f1()', 'registry', '_registry'])
    return out


_STATES = []


def probe(d, is_async, name):
    text = json.dumps({'jsonrpc': '2.0', 'id': 1, 'method': name})
    if is_async:
        loop = VLoop()
        try:
            r = loop.run(d.dispatch(text))
        finally:
            loop.close()
    else:
        r = d.dispatch(text)
    return json.loads(r[0])


class _Formatting(__import__('logging').Handler):
    def emit(self, record):
        self.format(record)


class debug_logging:
    """the application runs with DEBUG logging switched on for the pjrpc loggers (registration and dispatch included)"""
    def __init__(self, on):
        self.on = on

    def __enter__(self):
        import logging
        if self.on:
            self.h = _Formatting()
            self.lg = logging.getLogger('pjrpc')
            self.old = (logging.root.manager.disable, self.lg.level)
            logging.disable(logging.NOTSET)
            self.lg.setLevel(logging.DEBUG)
            self.lg.addHandler(self.h)

    def __exit__(self, *a):
        import logging
        if self.on:
            self.lg.removeHandler(self.h)
            self.lg.setLevel(self.old[1])
            logging.disable(self.old[0])
        return False


def run_state(case, rec):
    st = _STATES[case['index']]
    prefix, hist, model = st['prefix'], st['history'], st['model']
    obs = []
    for disp, extra, debug in (('sync', False, False), ('sync', True, False), ('async', False, False), ('async', True, False),
                               ('sync', False, True), ('async', True, True), ('sync', 'late', False), ('async', 'late', False),
                               ('sync', 'replace-after-call', False), ('async', 'replace-after-call', False)):
        if isinstance(extra, str) and (case['index'] % 2 == 0) != (disp == 'sync'):
            continue          # the two history variants alternate between the dispatchers from state to state
        with debug_logging(debug):
            reg = build(prefix, hist)
            d = pjrpc.server.AsyncDispatcher() if disp == 'async' else pjrpc.server.Dispatcher()
            m = dict(model)
            if extra == 'late':
                # every name is requested BEFORE it exists (-32601), then the methods are registered through the dispatcher's
                # public registry object, then requested again
                for name in sorted(m):
                    r = probe(d, disp == 'async', name)
                    rec.transitions += 1
                    if r.get('error', {}).get('code') != -32601:
                        rec.violation('C15:name that was never registered is reachable', dict(prefix=prefix, history=show(hist), disp=disp, extra=extra, probe=name),
                                      expected=-32601, observed=r)
                d.registry.merge(reg)
                extra = False
            else:
                if extra is True:
                    # the dispatcher's own registration calls, before and after attaching the registry
                    d.add(f3)
                    m['f3'] = 'f3'
                d.add_methods(reg)
            if extra is True:
                # the SAME registry object changes and is attached again: additions and replacements must arrive
                reg.add(f3, name='late')
                d.add(f2, name=join(prefix, 'late2'))
                reg.add(f3, name='late2')
                d.add_methods(reg)
                m[join(prefix, 'late')] = 'f3'
                m[join(prefix, 'late2')] = 'f3'
                d.view(V)
                m.update(VIEW_PUBLIC)
                d.add(f3, name='f1')
                m['f1'] = 'f3'
                d.add_methods(Method(f2, name='g.h'))
                m['g.h'] = 'f2'
            rec.transitions += 1
            keys = sorted(d.registry.keys())
            if keys != sorted(m):
                rec.violation('C15:registry key set differs from the registered names (%s)' % ('dispatcher calls' if extra else 'attach'),
                              dict(prefix=prefix, history=show(hist), disp=disp, extra=extra), expected=sorted(m), observed=keys)
            for name, tag in sorted(m.items()):
                r = probe(d, disp == 'async', name)
                rec.transitions += 1
                if r.get('result') != tag:
                    rec.violation('C15:registered name does not reach its function', dict(prefix=prefix, history=show(hist), disp=disp, extra=extra, probe=name),
                                  expected=tag, observed=r)
            for name in sorted(near_misses(m) - set(m)):
                r = probe(d, disp == 'async', name)
                rec.transitions += 1
                if r.get('error', {}).get('code') != -32601:
                    cls = 'private / non-callable view member' if any(name.endswith(x) for x in VIEW_FORBIDDEN) else 'name that was never registered'
                    rec.violation('C15:%s is reachable' % cls, dict(prefix=prefix, history=show(hist), disp=disp, extra=extra, probe=name),
                                  expected=-32601, observed=r)
            if extra == 'late' or (extra is False and not debug):
                # (1) what is registered on the registry object AFTER it was attached is not registered on the dispatcher, and what is
                #     registered on the dispatcher does not show up in the registry (attaching copies the table)
                reg.add(f3, name='only-on-registry')
                d.add(f2, name='only-on-dispatcher')
                m['only-on-dispatcher'] = 'f2'
                r = probe(d, disp == 'async', join(prefix, 'only-on-registry'))
                rec.transitions += 1
                if r.get('error', {}).get('code') != -32601:
                    rec.violation('C15:a method added to a registry after it was attached is reachable through the dispatcher', dict(prefix=prefix, history=show(hist), disp=disp, extra=extra),
                                  expected=-32601, observed=r)
                if 'only-on-dispatcher' in reg:
                    rec.violation('C15:a method added to the dispatcher shows up in the registry that was attached to it', dict(prefix=prefix, history=show(hist), disp=disp, extra=extra),
                                  expected='not in the registry', observed=sorted(reg)[:8])
                d2 = pjrpc.server.AsyncDispatcher() if disp == 'async' else pjrpc.server.Dispatcher()
                d2.add_methods(reg)
                r = probe(d2, disp == 'async', 'only-on-dispatcher')
                if r.get('error', {}).get('code') != -32601:
                    rec.violation('C15:a method added to one dispatcher is reachable through another dispatcher that shares a registry with it', dict(prefix=prefix, history=show(hist), disp=disp, extra=extra),
                                  expected=-32601, observed=r)
                # (2) one add_methods() call with several arguments registers them in argument order (a later one replaces an earlier one)
                other = MethodRegistry()
                other.add(f3, name='clash')
                d.add_methods(Method(f1, name='clash'), other)
                r1 = probe(d, disp == 'async', 'clash')
                d.add_methods(other, Method(f1, name='clash'))
                r2 = probe(d, disp == 'async', 'clash')
                rec.transitions += 3
                if (r1.get('result'), r2.get('result')) != ('f3', 'f1'):
                    rec.violation('C15:add_methods() with several arguments does not register them in argument order', dict(prefix=prefix, history=show(hist), disp=disp, extra=extra),
                                  expected=('f3', 'f1'), observed=(r1, r2))
                m['clash'] = 'f1'
            if extra == 'replace-after-call' and m:
                # every name has been CALLED by now; now existing names are re-registered with other functions through each public
                # route and a view method is replaced by a function: the later registration must be the one that answers
                names = sorted(m)
                routes = [lambda n: d.add(f3, name=n), lambda n: d.registry.add(f2, name=n), lambda n: d.add_methods(Method(f1, name=n)),
                          lambda n: d.registry.add_methods(Method(f3, name=n))]
                tags = ['f3', 'f2', 'f1', 'f3']
                changed = {}
                for k, n in enumerate(names[:4]):
                    probe(d, disp == 'async', n)         # the name is resolved once more just before it is replaced
                    routes[(k + 1) % 4](n)
                    changed[n] = tags[(k + 1) % 4]
                    r = probe(d, disp == 'async', n)
                    rec.transitions += 2
                    if r.get('result') != changed[n]:
                        rec.violation('C15:a name re-registered after it had been called still reaches the earlier function', dict(prefix=prefix, history=show(hist), disp=disp, extra=extra, probe=n),
                                      expected=changed[n], observed=r)
                        break

                class KV(pjrpc.server.ViewMixin):
                    def __init__(self, context):
                        super().__init__()
                        self.db = context['db']          # KeyError for a context without that key

                    def fetch(self):
                        return 'KV.fetch'
                d.registry.view(KV, context='context', prefix='kv')
                m2 = dict(m, **changed)
                for name, tag in sorted(m2.items()):
                    r = probe(d, disp == 'async', name)
                    rec.transitions += 1
                    if r.get('result') != tag:
                        rec.violation('C15:a name re-registered after it had been called still reaches the earlier function', dict(prefix=prefix, history=show(hist), disp=disp, extra=extra, probe=name),
                                      expected=tag, observed=r)
                        break
                # a registered view method whose view cannot be built for this request exists all the same: never -32601
                text = json.dumps({'jsonrpc': '2.0', 'id': 1, 'method': 'kv.fetch'})
                if disp == 'async':
                    loop = VLoop()
                    try:
                        r = json.loads(loop.run(d.dispatch(text, context={}))[0])
                    finally:
                        loop.close()
                else:
                    r = json.loads(d.dispatch(text, context={})[0])
                if r.get('error', {}).get('code') in (-32601, None):
                    rec.violation('C15:a registered method whose view constructor fails is answered like an unregistered name', dict(prefix=prefix, history=show(hist), disp=disp, extra=extra),
                                  expected='an error other than -32601 (the method exists)', observed=r)
            obs.append(len(m))
    rec.states += 1
    rec.traces += 1
    if any(op[0] == 'merge' for op in hist):
        rec.nontrivial_n += 1
    return tuple(obs)


def gen_threads(ctx):
    K = 8
    for how in ('add', 'add_methods', 'merge', 'view'):
        for k in range(K):
            yield dict(part='threads', how=how, budget=ctx.pick(1, 2), shard=(k, K, 1))


def run_threads_case(case, rec):
    """E5: a dispatcher serves a request for a registered name in one thread while another thread registers that very name again (the
    documented way to replace a method): at every schedule the request is answered by the old or by the new function, never -32601"""
    import os
    from mc.core import explore_choices
    from mc.threadsched import run_threads
    pj = os.path.dirname(os.path.abspath(pjrpc.__file__)) + os.sep
    sched = 0
    how = case['how']
    name = 'V.pub1' if how == 'view' else 'f1'
    text = json.dumps({'jsonrpc': '2.0', 'id': 1, 'method': 'pub1' if how == 'view' else 'f1'})

    def once(env):
        with debug_logging(False):
            d = pjrpc.server.Dispatcher()
            if how == 'view':
                d.view(V)
            else:
                d.add(f1)
                d.add(f2)

            def again():
                if how == 'add':
                    d.add(f1)
                elif how == 'add_methods':
                    d.add_methods(f1)
                elif how == 'merge':
                    r = MethodRegistry()
                    r.add(f1)
                    d.registry.merge(r)
                else:
                    d.view(V)

            def serve():
                return d.dispatch(text, context={})
            res, tr = run_threads([again, serve], env, [pj])
        return res, tr
    for choices, (res, tr) in explore_choices(once, budget=case['budget'], shard=tuple(case['shard']), max_exec=400000):
        sched += 1
        rec.transitions += tr.points
        k, v = res[1]
        ok = False
        if k == 'ok' and v:
            try:
                doc = json.loads(v[0])
                ok = 'result' in doc
            except Exception:   # noqa
                ok = False
        if not ok or res[0][0] != 'ok':
            rec.violation('C15:threads:a registered name is not reachable while it is registered again in another thread', dict(case, choices=list(choices)),
                          expected='result of %s' % name, observed=(repr(res[0])[:200], repr(v)[:300]))
            break
    rec.states += sched
    rec.traces += sched
    rec.nontrivial_n += sched
    rec.counters['thread schedules'] += sched
    return sched


def run_any(case, rec):
    if case.get('part') == 'threads':
        return run_threads_case(case, rec)
    return run_state(case, rec)


def run(ctx):
    max_cost = ctx.pick(4, 6)
    states, transitions, viols = bfs(max_cost)
    _STATES[:] = states
    ctx.rec.transitions += transitions
    for v in viols:
        ctx.rec.violation('C15:registry contents differ from the reference after %s' % v['op'], dict(prefix=v['prefix'], history=v['history']),
                          expected=v['expected'], observed=v['observed'])
    ctx.rule = ('E2: BFS over registration histories of total cost <= %d (nested merge operands count) over {add(f), add(f, name), '
                'add_methods(f), add_methods(Method) [unprefixed registries], view(V), view(V, prefix), merge(R)} on registries with prefix '
                'None / "a" / "a.b", merge operands = reachable registries up to 3 levels deep; canonical state = (prefix, sorted name -> '
                'function map) (sound: the future of a registry depends only on that map and its prefix); each of the %d canonical states '
                'is attached to Dispatcher and AsyncDispatcher (plain and with the dispatcher\'s own add / view / add_methods calls) and '
                'probed with every registered name and ~12 near misses per name + private / dunder / non-callable members. '
                'non-trivial = state whose history contains a merge. + E5: one thread registers an existing name again (add / add_methods / merge / view) while another '
                'dispatches a request for it, a switch possible at every source line of pjrpc, <= %d preemptions: never -32601' % (max_cost, len(states), ctx.pick(1, 2)))
    ctx.assumptions += ['add_methods(Method object) is exercised on unprefixed registries and dispatchers only',
                        'functions are registered under their __name__ (aliases / lambdas are outside the alphabet)']
    ctx.bounds.update(max_cost=max_cost, canonical_states=len(states), search_transitions=transitions)
    ctx.run_cases('C15', lambda: itertools.chain((dict(index=i) for i in range(len(states))), gen_threads(ctx)), run_any, recheck_every=499)
    ctx.guard('merged and prefixed registries reached', ctx.rec.nontrivial_n > 20 and len(states) > 100, (ctx.rec.nontrivial_n, len(states)))


def replay(doc):
    from mc.core import Recorder, jdump
    print('history:', jdump(doc['case'])[:800])
    states, _, viols = bfs(6 if doc.get("tier") == "thorough" else 4)
    _STATES[:] = states
    rec = Recorder()
    for i, st in enumerate(states):
        if show(st['history']) == doc['case']['history'] and st['prefix'] == doc['case']['prefix']:
            run_state(dict(index=i), rec)
    for v in rec.violations[:5]:
        print('VIOLATION-REPLAY signature=%s\n  expected=%s\n  observed=%s' % (v['signature'], jdump(v['expected'])[:300], jdump(v['observed'])[:300]))
    print('replayed: %d violation(s) (+%d while searching)' % (len(rec.violations), len(viols)))
    return 1 if (rec.violations or viols) else 0
