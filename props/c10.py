"""
C10 - concurrent batches cannot mix up responses; sequential mode is sequential.
Mode E4: the real AsyncDispatcher runs on the virtual event loop; every instrumented coroutine (method, middleware,
error handler) suspends on gates only the explorer releases; ALL orders in which the pending gates can complete are
executed (stateless DFS over the choice "which pending gate completes next").
"""
import asyncio
import itertools
import json

import pjrpc
import pjrpc.server
from pjrpc.common.exceptions import JsonRpcError

from mc.core import HarnessError, explore_choices
from mc.harness.methods import MARK
from mc.refmodel.server import typed_eq
from mc.vloop import Deadlock, VLoop

# method kinds: name -> (gates, ending)
KINDS = {
    'g0ok': (0, 'ok'), 'g1ok': (1, 'ok'), 'g2ok': (2, 'ok'),
    'g1perr': (1, 'perr'), 'g2perr': (2, 'perr'), 'g0perr': (0, 'perr'),
    'g2boom': (2, 'boom'), 'g1boom': (1, 'boom'),
    'plain': (0, 'plain'), 'plainperr': (0, 'plainperr'),
    'v1ok': (1, 'ok'),      # coroutine method of a class based view that keeps per-call state on self across its gate
    'w1ok': (1, 'ok'),      # a plain function that RETURNS a coroutine (a coroutine function behind an ordinary decorator)
    'ibroken': (0, 'internal'),     # a view whose constructor raises: the element fails before its method body (-32603)
    'plaintype': (0, 'plaintype'),  # a plain function whose body raises TypeError after it has left its mark
}


import contextvars

ELEM = contextvars.ContextVar('c10_element', default=None)


class Monitor:
    def __init__(self):
        self.ctxvar_seen = []   # (elem, where, value of the context variable)
        self.events = []        # (elem, 'enter' | 'exit' | 'run')
        self.inflight = set()
        self.max_inflight = 0
        self.max_pending_gates = 0

    def enter(self, i):
        self.events.append((i, 'enter'))
        self.inflight.add(i)
        self.max_inflight = max(self.max_inflight, len(self.inflight))

    def exit(self, i):
        self.events.append((i, 'exit'))
        self.inflight.discard(i)


def build(cfg, mon):
    async def gate(i, stage):
        await asyncio.get_running_loop().gate((i, stage))

    def make(kind):
        gates, ending = KINDS[kind]
        if ending in ('plain', 'plainperr', 'plaintype'):
            def plain(i):
                mon.events.append((i, 'run'))
                if ending == 'plaintype':
                    raise TypeError('%s %d' % (MARK, i))
                if ending == 'plainperr':
                    raise JsonRpcError(5000 + i, 'perr %d' % i, data={'elem': i})
                return {'elem': i, 'kind': kind}
            return plain

        async def co(i):
            mon.events.append((i, 'run'))
            if cfg.get('ctxvar'):
                # per-element state kept in a context variable by the middleware must still be this element's after the suspensions
                mon.ctxvar_seen.append((i, 'start', ELEM.get()))
            top = cfg['mw'] == 'none'
            if top:
                mon.enter(i)
            try:
                for g in range(gates):
                    if ending == 'boom' and g == gates - 1:
                        # raises between its gates
                        raise ValueError('%s %d' % (MARK, i))
                    await gate(i, 'm%d' % g)
                if cfg.get('ctxvar'):
                    mon.ctxvar_seen.append((i, 'end', ELEM.get()))
                if ending == 'perr':
                    raise JsonRpcError(5000 + i, 'perr %d' % i, data={'elem': i})
                return {'elem': i, 'kind': kind}
            finally:
                if top:
                    mon.exit(i)
        if kind == 'w1ok':
            import functools
            inner = co

            @functools.wraps(inner)
            def plain_returning_coroutine(i):
                return inner(i)
            return plain_returning_coroutine
        return co

    middlewares = []
    if cfg['mw'] == 'plainfn':
        # a middleware that is NOT a coroutine function: it does its work when called and returns an awaitable
        def mw(request, context, handler):
            i = request.params[0] if request.params else -1
            mon.enter(i)

            async def rest():
                try:
                    await gate(i, 'mwb')
                    return await handler(request, context)
                finally:
                    mon.exit(i)
            return rest()
        middlewares.append(mw)
    elif cfg['mw'] == 'raise-notif':
        # a middleware that fails (raises) for notifications: whether dispatch() then raises or answers is not the point - IF it
        # answers, the answer lists exactly the calls, in order, and nothing for the notification
        async def mw(request, context, handler):
            i = request.params[0] if request.params else -1
            mon.enter(i)
            try:
                if request.id is None:
                    raise RuntimeError('%s middleware failure %d' % (MARK, i))
                return await handler(request, context)
            finally:
                mon.exit(i)
        middlewares.append(mw)
    elif cfg['mw'] != 'none':
        async def mw(request, context, handler):
            i = request.params[0] if request.params else -1
            mon.enter(i)
            if cfg.get('ctxvar'):
                ELEM.set(i)
            try:
                if cfg['mw'] in ('before', 'both'):
                    await gate(i, 'mwb')
                r = await handler(request, context)
                if cfg['mw'] in ('after', 'both'):
                    await gate(i, 'mwa')
                return r
            finally:
                mon.exit(i)
        middlewares.append(mw)
    handlers = {}
    if cfg['eh'] != 'none':
        async def eh(request, context, error):
            i = request.params[0] if request.params else -1
            await gate(i, 'eh')
            return error
        handlers = {None: [eh]}
        if cfg['eh'] == 'stamp':
            # the handler writes into the error object it is given and returns it
            async def stamp(request, context, error):
                i = request.params[0] if request.params else -1
                await gate(i, 'eh')
                error.data = {'stamped': i}
                return error
            handlers = {None: [stamp]}
        if cfg['eh'] == 'gate+code':
            # plus a handler registered for ONE code (method not found) that rewrites the error: it must touch only the elements
            # that failed with that code, however the other elements' handlers interleave
            async def rewrite(request, context, error):
                return JsonRpcError(7404, 'rewritten', data={'was': error.code})
            handlers[-32601] = [rewrite]
    if cfg.get('via') == 'aiohttp-app':
        # the dispatcher is the one the aiohttp integration builds from the options given to Application(...) / add_endpoint(...)
        from pjrpc.server.integration import aiohttp as ia
        app = ia.Application('/api', middlewares=middlewares, error_handlers=handlers, concurrent_batch=cfg['concurrent'])
        d = app.dispatcher
    elif cfg.get('via') == 'aiohttp-endpoint':
        from pjrpc.server.integration import aiohttp as ia
        d = ia.Application('/api').add_endpoint('/v2', middlewares=middlewares, error_handlers=handlers, concurrent_batch=cfg['concurrent'])
    else:
        kw = {}
        if cfg.get('respcls'):
            class OkIsTrue(pjrpc.common.Response):
                def __bool__(self):
                    return self.is_success          # the user's response class has a truth value of its own
            kw['response_class'] = OkIsTrue
        d = pjrpc.server.AsyncDispatcher(middlewares=middlewares, error_handlers=handlers, concurrent_batch=cfg['concurrent'], **kw)
    for kind in KINDS:
        if kind not in ('v1ok', 'ibroken'):
            d.add(make(kind), name=kind)

    class BrokenView(pjrpc.server.ViewMixin):
        def __init__(self):
            raise RuntimeError('%s view constructor' % MARK)

        def ibroken(self, i):
            return i
    d.registry.view(BrokenView)

    class StatefulView(pjrpc.server.ViewMixin):
        async def v1ok(self, i):
            mon.events.append((i, 'run'))
            top = cfg['mw'] == 'none'
            if top:
                mon.enter(i)
            try:
                self.mine = i
                await gate(i, 'm0')
                return {'elem': self.mine, 'kind': 'v1ok'}
            finally:
                if top:
                    mon.exit(i)
    d.registry.view(StatefulView)
    return d


def id_of(i):
    """the id of element i: falsy, numeric and string ids at the first positions"""
    return [0, '', 'id2', 3, '4', -5][i] if i < 6 else 'id%d' % i


def expected(cfg):
    out = []
    runs = []
    for i, (kind, is_call) in enumerate(cfg['elems']):
        if kind not in ('unknown', 'ibroken'):
            runs.append(i)
        if not is_call:
            continue
        id = id_of(i)
        if kind == 'unknown':
            out.append(dict(id=id, code=7404, message='rewritten', data={'was': -32601}) if cfg['eh'] == 'gate+code' else
                       (dict(id=id, code=-32601, data={'stamped': i}, stamped=True) if cfg['eh'] == 'stamp' else dict(id=id, code=-32601)))
        elif cfg['eh'] == 'stamp' and KINDS[kind][1] not in ('ok', 'plain'):
            code = {'perr': 5000 + i, 'plainperr': 5000 + i, 'internal': -32603}.get(KINDS[kind][1], -32000)
            out.append(dict(id=id, code=code, data={'stamped': i}, stamped=True))
        else:
            ending = KINDS[kind][1]
            if ending == 'internal':
                out.append(dict(id=id, code=-32603))
            elif ending in ('ok', 'plain'):
                out.append(dict(id=id, result={'elem': i, 'kind': kind}))
            elif ending in ('perr', 'plainperr'):
                out.append(dict(id=id, code=5000 + i, message='perr %d' % i, data={'elem': i}))
            else:
                out.append(dict(id=id, code=-32000))
    return out, runs


def execute(cfg, env):
    mon = Monitor()
    d = build(cfg, mon)
    doc = []
    for i, (kind, is_call) in enumerate(cfg['elems']):
        o = {'jsonrpc': '2.0', 'method': kind, 'params': [i]}
        if is_call:
            o['id'] = id_of(i)
        doc.append(o)
    loop = VLoop()

    def choose(labels):
        mon.max_pending_gates = max(mon.max_pending_gates, len(labels))
        order = cfg.get('order')
        if order == 'reverse':
            return len(labels) - 1          # long batches: fixed completion orders instead of all of them
        if order == 'middle':
            return len(labels) // 2
        if order == 'fifo':
            return 0
        return env.choose(('gate', tuple(sorted(labels))), len(labels))
    try:
        try:
            r = loop.run(d.dispatch(json.dumps(doc)), choose=choose)
            out = ('ret', r)
        except Deadlock as e:
            out = ('deadlock', str(e))
        except Exception as e:   # noqa
            out = ('raise', '%s: %s' % (type(e).__name__, e))
    finally:
        unhandled = list(loop.unhandled)
        loop.close()
    return out, mon, unhandled


def check(cfg, choices, out, mon, unhandled, rec):
    def viol(sig, expected_, observed):
        rec.violation(sig, dict(cfg=cfg, choices=list(choices)), expected=expected_, observed=observed)
        return 'bad:' + sig
    if cfg['mw'] == 'raise-notif':
        if out[0] == 'raise':
            return ('ok-raised', mon.max_inflight)
        if out[0] != 'ret':
            return viol('C10:%s' % out[0], 'a response or the middleware\'s exception', out[1])
        want_ids = [id_of(i) for i, (kind, is_call) in enumerate(cfg['elems']) if is_call]
        got = json.loads(out[1][0]) if out[1] else []
        got_ids = [g.get('id') for g in got] if isinstance(got, list) else 'not an array'
        if not typed_eq(got_ids, want_ids):
            return viol('C10:a batch in which a middleware failed for a notification is answered with other entries than the calls\' (in order)', want_ids, got)
        return ('ok-answered', mon.max_inflight)
    if out[0] != 'ret':
        return viol('C10:%s' % out[0], 'a response', out[1])
    exp, runs = expected(cfg)
    r = out[1]
    if not exp:
        if r is not None:
            return viol('C10:answer to a batch of notifications', None, r)
    else:
        if r is None:
            return viol('C10:no response', exp, None)
        got = json.loads(r[0])
        if not isinstance(got, list) or len(got) != len(exp):
            return viol('C10:number of responses', exp, got)
        for pos, (g, e) in enumerate(zip(got, exp)):
            if not typed_eq(g.get('id'), e['id']):
                return viol('C10:responses not in request order', [x['id'] for x in exp], [x.get('id') for x in got])
            if 'result' in e:
                if 'result' not in g or not typed_eq(g['result'], e['result']):
                    return viol('C10:response carries another element\'s result / an error', e, g)
            else:
                er = g.get('error') or {}
                if er.get('code') != e['code'] or ('message' in e and (er.get('message') != e['message'] or er.get('data') != e['data'])) or (e.get('stamped') and er.get('data') != e['data']):
                    return viol('C10:response carries another element\'s error / a result', e, g)
    ran = sorted(i for i, w in mon.events if w == 'run')
    if ran != runs:
        return viol('C10:methods not executed exactly once each', runs, ran)
    if cfg['mw'] != 'none':
        entered = sorted(i for i, w in mon.events if w == 'enter')
        if entered != list(range(len(cfg['elems']))):
            return viol('C10:middleware did not run exactly once for every element', list(range(len(cfg['elems']))), entered)
    if cfg.get('ctxvar'):
        wrong = [(i, where, v) for i, where, v in mon.ctxvar_seen if v != i]
        if wrong:
            return viol('C10:an element saw another element\'s context variable', 'own element index', wrong[:6])
    if unhandled:
        return viol('C10:exception reached the loop exception handler', [], [str(u.get('message')) for u in unhandled])
    if not cfg['concurrent']:
        # sequential mode: never two in flight, starts in request order, at most one pending gate
        if mon.max_inflight > 1:
            return viol('C10:sequential mode: two elements in flight at the same time', 1, mon.max_inflight)
        if mon.max_pending_gates > 1:
            return viol('C10:sequential mode: several suspended elements at a quiescent point', 1, mon.max_pending_gates)
        order = [i for i, w in mon.events if w == 'run']
        if order != sorted(order):
            return viol('C10:sequential mode: elements not started in request order', sorted(order), order)
    return ('ok', mon.max_inflight)


def gen_cases(ctx):
    n_main = ctx.pick(3, 3)
    main = ['g0ok', 'g1ok', 'g2ok', 'g1perr', 'g2boom', 'plain', 'unknown', 'v1ok', 'w1ok', 'plaintype']
    alphabet = [(k, c) for k in main for c in (True, False)]
    for conc in (True, False):
        for n in range(1, n_main + 1):
            for elems in itertools.product(alphabet, repeat=n):
                yield dict(part='main', concurrent=conc, mw='none', eh='none', elems=elems)
                if n <= 2:
                    yield dict(part='main', concurrent=conc, mw='none', eh='none', elems=elems, respcls=True)
    # the same through the dispatchers the aiohttp integration builds from its keyword options
    for via in ('aiohttp-app', 'aiohttp-endpoint'):
        for conc in (True, False):
            for n in (2, 3):
                for elems in itertools.product([('g1ok', True), ('g1perr', True), ('g1ok', False), ('unknown', True)], repeat=n):
                    yield dict(part='main', concurrent=conc, mw='none', eh='none', elems=elems, via=via)
                    if n == 2:
                        yield dict(part='stack', concurrent=conc, mw='before', eh='gate', elems=elems, via=via)
    for conc in (True, False):
        for n in (2, 3):
            for elems in itertools.product([('g0ok', True), ('g0ok', False), ('g1ok', True), ('g0perr', True)], repeat=n):
                if sum(1 for _, c in elems if not c) == 1:
                    yield dict(part='stack', concurrent=conc, mw='raise-notif', eh='none', elems=elems)
    four = [('g1ok', True), ('g2ok', True), ('g1perr', True), ('g1ok', False), ('plain', True), ('v1ok', True)]
    for conc in (True, False):
        for elems in itertools.product(alphabet if not ctx.quick else four, repeat=4):
            yield dict(part='four', concurrent=conc, mw='none', eh='none', elems=elems)
    if not ctx.quick:
        five = [('g1ok', True), ('g1perr', True), ('g0ok', True), ('g1ok', False)]
        for conc in (True, False):
            for elems in itertools.product(five, repeat=5):
                yield dict(part='five', concurrent=conc, mw='none', eh='none', elems=elems)
    # long batches (lengths around round numbers): three fixed completion orders each - oldest gate first, newest first, middle
    for L in (5, 8, 16, 17, 32, 33, 63, 64, 65, 100, 128, 129, 257):
        for pattern in ('calls', 'mixed'):
            kinds_ = ['g1ok', 'g1perr', 'g0ok', 'plain', 'g2ok', 'v1ok']
            elems = tuple(('g1ok', True) if pattern == 'calls' else (kinds_[i % len(kinds_)], i % 3 != 2) for i in range(L))
            for conc in (True, False):
                for order in ('fifo', 'reverse', 'middle'):
                    for mw in ('none', 'before'):
                        yield dict(part='long', concurrent=conc, mw=mw, eh='none', elems=elems, order=order)
    # middleware / error handler stacks (<= 2 suspension points per element in total)
    small = [('g0ok', True), ('g1ok', True), ('g0perr', True), ('g1perr', False), ('unknown', True), ('plainperr', True), ('g1boom', True), ('ibroken', True), ('plaintype', True)]
    for conc in (True, False):
        for mw, eh in (('before', 'none'), ('after', 'none'), ('both', 'none'), ('none', 'gate'), ('before', 'gate'), ('after', 'gate'), ('plainfn', 'none'),
                       ('none', 'gate+code'), ('before', 'ctxvar'), ('none', 'stamp')):
            for n in range(1, ctx.pick(2, 3) + 1):
                for elems in itertools.product(small, repeat=n):
                    budget_ok = all(KINDS.get(k, (0,))[0] + {'none': 0, 'before': 1, 'after': 1, 'both': 2, 'plainfn': 1}[mw] +
                                    (1 if eh in ('gate', 'gate+code', 'stamp') and (k == 'unknown' or KINDS[k][1] not in ('ok', 'plain')) else 0) <= 2
                                    for k, _ in elems)
                    if budget_ok:
                        if eh == 'ctxvar':
                            yield dict(part='stack', concurrent=conc, mw=mw, eh='none', elems=elems, ctxvar=True)
                        else:
                            yield dict(part='stack', concurrent=conc, mw=mw, eh=eh, elems=elems)


def run_case(cfg, rec):
    leaves = 0
    orders = set()
    digest = []
    maxin = 0
    for choices, (out, mon, unhandled) in explore_choices(lambda env: execute(cfg, env), max_exec=50000):
        r = check(cfg, choices, out, mon, unhandled, rec)
        leaves += 1
        rec.transitions += len(choices) + 1
        orders.add(choices)
        if isinstance(r, tuple):
            maxin = max(maxin, r[1])
        digest.append((choices, r if isinstance(r, str) else r[0]))
    rec.traces += leaves
    rec.states += leaves
    rec.counters['configs'] += 1
    rec.counters['configs with >1 schedule'] += 1 if leaves > 1 else 0
    if cfg['concurrent'] and maxin > 1:
        rec.counters['concurrent configs with 2+ elements in flight'] += 1
    if leaves > 1:
        rec.nontrivial_n += leaves
    rec.outcomes['schedules=%d' % leaves if leaves < 10 else 'schedules>=10'] += 1
    return (leaves, hash(tuple(digest)))


def run(ctx):
    ctx.rule = ('E4: one batch of 1..%d elements over {coroutine with 0/1/2 gates succeeding, protocol error after its gate, '
                'exception between gates, plain function, unknown method} x {call, notification}%s; middleware with a gate '
                'before / after / both and an error handler with a gate on batches of <= %d elements (<= 2 suspension points per '
                'element); concurrent and sequential mode. For each configuration EVERY order in which pending gates complete is '
                'executed on the real AsyncDispatcher. state = one complete schedule; non-trivial = schedule of a configuration '
                'with more than one possible order. Additionally (NOT exhaustive over schedules) batches of 5..257 elements around round lengths under three fixed completion orders (oldest / newest / middle gate first)' % (3, '; 4-element batches over 5 kinds' if ctx.quick else '; 4-element batches over all 14 element types; 5-element batches over 4 single-gate kinds', ctx.pick(2, 3)))
    ctx.assumptions += ['suspension happens only at gates (the instrumented awaits); asyncio ready-queue order is FIFO as asyncio guarantees']
    ctx.run_cases('C10', lambda: gen_cases(ctx), run_case, recheck_every=53)
    c = ctx.rec.counters
    ctx.guard('more than one completion order executed', c['configs with >1 schedule'] > 50, dict(c))
    ctx.guard('two elements simultaneously in flight in concurrent mode', c['concurrent configs with 2+ elements in flight'] > 50, dict(c))


def replay(doc):
    from mc.core import Env, Recorder, jdump
    rec = Recorder()
    cfg, choices = doc['case']['cfg'], doc['case']['choices']
    cfg['elems'] = [tuple(e) for e in cfg['elems']]
    out, mon, unhandled = execute(cfg, Env(tuple(choices)))
    check(cfg, choices, out, mon, unhandled, rec)
    print('returned:', out, '\nevents:', mon.events)
    for v in rec.violations[:5]:
        print('VIOLATION-REPLAY signature=%s\n  expected=%s\n  observed=%s' % (v['signature'], jdump(v['expected'])[:300], jdump(v['observed'])[:300]))
    print('replayed: %d violation(s)' % len(rec.violations))
    return 1 if rec.violations else 0
