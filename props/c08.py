"""
C08 - the client matches responses to requests by id and rejects mismatches.
Mode E3/E1: the server is the adversarial environment - for batches of n calls (+ optional notification) EVERY
response array of length 0..n+1 over {id of call i, unknown id, type-confused id, null} x {success, error} is fed to
the real client (sync and async, strict on/off, batch.call and batch.send), plus batch-level errors, junk elements
and non-array bodies; single calls over every id relation.  Oracle: reference matcher S4.
"""
import itertools
import json

import pjrpc
from pjrpc.common import BatchRequest, BatchResponse, Request, Response
from pjrpc.common.exceptions import DeserializationError, IdentityError, JsonRpcError, MethodNotFoundError

from mc.harness.client import make_client
from mc.harness.client import run as drive
from mc.refmodel.server import typed_eq

UNK, CONF, NULL = 'unk', 'conf', 'null'
JUNK = [{'jsonrpc': '2', 'id': 1, 'result': 1}, {'jsonrpc': '', 'id': 1, 'result': 1}, {'jsonrpc': '.0', 'id': 1, 'error': {'code': 1, 'message': 'm'}}, 1, {}, [], {'jsonrpc': '2.0', 'id': True, 'result': 1}, {'jsonrpc': '2.0', 'id': False, 'error': {'code': 1, 'message': 'm'}}, {'jsonrpc': '2.0', 'id': 1}, {'jsonrpc': '1.0', 'id': 1, 'result': 1},
        {'jsonrpc': '2.0', 'id': 1, 'result': 1, 'error': {'code': 1, 'message': 'm'}},
        {'jsonrpc': '2.0', 'id': 1, 'error': {'code': '1', 'message': 'm'}}, {'jsonrpc': '2.0', 'id': [1], 'result': 1},
        # error objects without a (string) message - also for codes that have a registered class with a default message
        {'jsonrpc': '2.0', 'id': 1, 'error': {'code': -32601}}, {'jsonrpc': '2.0', 'id': 1, 'error': {'code': -32000, 'data': 1}},
        {'jsonrpc': '2.0', 'id': 1, 'error': {'code': 7201}}, {'jsonrpc': '2.0', 'id': 1, 'error': {'code': 5, 'message': None}},
        {'jsonrpc': '2.0', 'id': 1, 'error': {'message': 'm'}}, {'jsonrpc': '2.0', 'id': 1, 'error': {'code': -32603, 'message': 7}},
        {'jsonrpc': '2.0', 'id': 1, 'error': {'code': -32000.0, 'message': 'm'}}, {'jsonrpc': '2.0', 'id': 1, 'error': {'code': True, 'message': 'm'}},
        # a result together with a falsy / null error member, and the other way round: both members present is never a response
        {'jsonrpc': '2.0', 'id': 1, 'result': 1, 'error': {}}, {'jsonrpc': '2.0', 'id': 1, 'result': 1, 'error': None},
        {'jsonrpc': '2.0', 'id': 1, 'result': 1, 'error': 0}, {'jsonrpc': '2.0', 'id': 1, 'result': 1, 'error': []},
        {'jsonrpc': '2.0', 'id': 1, 'result': 1, 'error': False}, {'jsonrpc': '2.0', 'id': 1, 'result': 1, 'error': ''},
        {'jsonrpc': '2.0', 'id': 1, 'result': None, 'error': {'code': 1, 'message': 'm'}}]
BODIES = ['1', '"x"', 'null', '{}', 'true', '{"jsonrpc":"2.0","id":1,"result":1}', '{"jsonrpc":"2.0","id":1}',
          '{"jsonrpc":"2.0","id":null,"result":1}', '{"jsonrpc":"2.0","id":null,"error":{"code":-32600}}',
          '{"jsonrpc":"2.0","id":null,"error":{"code":-32000,"message":null}}', '{"jsonrpc":"2.0","id":null,"error":{"code":-32700.0,"message":"m"}}']


class HierV1(JsonRpcError):
    """the documented 'independent clients errors' pattern: a base class (given to the client as error_cls) that resolves codes itself"""
    @classmethod
    def get_error_cls(cls, code, default):
        return next(iter((c for c in cls.__subclasses__() if getattr(c, 'code', None) == code)), default)


class V1Denied(HierV1):
    code = 7201
    message = 'denied'


class OtherHier(JsonRpcError):
    pass


class OtherDenied(OtherHier):       # same code in another hierarchy, registered later in the process-wide mapping
    code = 7201
    message = 'other'


def real_id(ref, n, base=1):
    if ref == UNK:
        return 99
    if ref == CONF:
        return str(base)
    if ref == NULL:
        return None
    return ref + base


def entry_obj(ref, ok, pos, n, base=1, flat=False):
    id = real_id(ref, n, base)
    o = {'jsonrpc': '2.0', 'id': id}
    if flat:
        pos = 0          # the payload does not depend on the position: a repeated id repeats the whole response (a replayed frame)
    if ok:
        o['result'] = {'for': id, 'pos': pos}
    else:
        o['error'] = {'code': 1000 + pos, 'message': 'e%d' % pos, 'data': {'for': id}}
    return o


def gen_cases(ctx):
    nmax = ctx.pick(3, 4)
    for n in range(1, nmax + 1):
        refs = list(range(n)) + [UNK, CONF, NULL]
        alphabet = [(r, ok) for r in refs for ok in (True, False)]
        for L in range(0, n + 2):
            for entries in itertools.product(alphabet, repeat=L):
                for kind in ('sync', 'async'):
                    for strict in (True, False):
                        yield dict(part='batch', kind=kind, strict=strict, n=n, notif=False, via='call', entries=entries)
                    if L <= n:
                        yield dict(part='batch', kind=kind, strict=True, n=n, notif=False, via='call', entries=entries, custom=True)
                    if n >= 2 and L == n and len({r for r, _ in entries}) == n:
                        yield dict(part='batch', kind=kind, strict=True, n=n, notif=False, via='call', entries=entries, build='add+getitem')
                    if len(set(entries)) < len(entries):
                        # an id repeated with the very same payload
                        for via in ('call', 'send'):
                            yield dict(part='batch', kind=kind, strict=True, n=n, notif=False, via=via, entries=entries, flat=True)
                    # ids starting at 0 (sequential(start=0)): the first call has a falsy id
                    yield dict(part='batch', kind=kind, strict=True, n=n, notif=False, via='call', entries=entries, base=0)
                    if kind == 'sync':
                        yield dict(part='batch', kind=kind, strict=False, n=n, notif=False, via='send', entries=entries, base=0)
                # send() and a notification inside the batch: sync strict carries the load, others sampled by permutation docs
                distinct = len({r for r, _ in entries}) == len(entries)
                if distinct or L <= n:
                    for kind in ('sync', 'async'):
                        yield dict(part='batch', kind=kind, strict=True, n=n, notif=False, via='send', entries=entries)
                        yield dict(part='batch', kind=kind, strict=True, n=n, notif=True, via='call', entries=entries)
                    yield dict(part='batch', kind='sync', strict=False, n=n, notif=False, via='send', entries=entries)
                    if L <= n:
                        # the hand-built request container itself is non-strict (it does not check its ids): the client's checks are the same
                        for kind in ('sync', 'async'):
                            yield dict(part='batch', kind=kind, strict=True, n=n, notif=False, via='send', entries=entries, lax_request=True)
        # one junk element at each position of each array of length <= n-1 (+1 junk)
        for L in range(0, min(n, 3)):
            for entries in itertools.product(alphabet, repeat=L):
                for pos in range(L + 1):
                    for j in range(len(JUNK)):
                        for kind in ('sync', 'async'):
                            yield dict(part='batch', kind=kind, strict=True, n=n, notif=False, via='call', entries=entries,
                                       junk=(pos, j))
        for kind in ('sync', 'async'):
            for strict in (True, False):
                for via in ('call', 'send'):
                    for b in range(len(BODIES)):
                        yield dict(part='batch', kind=kind, strict=strict, n=n, notif=False, via=via, entries=(), body=b)
                    for code in (-32600, 1, 0, 7001):
                        yield dict(part='batch', kind=kind, strict=strict, n=n, notif=False, via=via, entries=(), level=code)
    # singles
    yield from gen_extra(ctx)
    for kind in ('sync', 'async'):
        for strict in (True, False):
            for req_id in (1, '1', 0, '', -1, 'abc'):
                for rel in ('equal', 'different', 'null', 'absent', 'confused'):
                    for payload in ('succ', 'null', 'err', 'err-registered', 'err0', 'err-hier'):
                        for via in ('send', 'call'):
                            if via == 'call' and req_id != 1:
                                continue
                            yield dict(part='single', kind=kind, strict=strict, req_id=req_id, rel=rel, payload=payload, via=via)
                            if via == 'call' and strict and payload != 'err-hier':
                                yield dict(part='single', kind=kind, strict=strict, req_id=req_id, rel=rel, payload=payload, via=via, custom=True)
                for j in range(len(JUNK)):
                    yield dict(part='single', kind=kind, strict=strict, req_id=1, junk=j, via='call')


def classify(out):
    k, v = out
    if k == 'ok':
        return ('ok', v)
    if isinstance(v, IdentityError):
        return ('identity', str(v))
    if isinstance(v, DeserializationError):
        return ('deser', str(v))
    if isinstance(v, JsonRpcError):
        return ('rpc', v)
    return ('other', '%s: %s' % (type(v).__name__, v))


def has_dup(ids):
    seen = []
    for i in ids:
        if any(typed_eq(i, s) for s in seen):
            return True
        seen.append(i)
    return False


def run_batch(c, rec):
    n, strict, entries = c['n'], c['strict'], [tuple(e) for e in c['entries']]
    base = c.get('base', 1)
    doc = [entry_obj(r, ok, pos, n, base, flat=bool(c.get('flat'))) for pos, (r, ok) in enumerate(entries)]
    expect_deser = False
    if 'junk' in c:
        pos, j = c['junk']
        doc.insert(pos, JUNK[j])
        expect_deser = True
    if 'body' in c:
        body = BODIES[c['body']]
        expect_deser = True
    elif 'level' in c:
        body = json.dumps({'jsonrpc': '2.0', 'id': None, 'error': {'code': c['level'], 'message': 'lvl', 'data': [1]}})
    else:
        body = json.dumps(doc)

    import functools
    from pjrpc.common import generators
    idkw = dict(id_gen_impl=functools.partial(generators.sequential, start=0)) if base == 0 else {}
    client = make_client(c['kind'], lambda text, is_notif, kw: body, strict=strict, custom=bool(c.get('custom')), **idkw)
    batch = client.batch
    requests = None
    if c['via'] == 'call' and c.get('build') == 'add+getitem':
        # the first calls are add()ed, the others follow through item access on the SAME wrapper (which extends a non-empty batch)
        k = (n + 1) // 2
        for i in range(k):
            batch.add('m%d' % i, i)
        out = drive(c["kind"], lambda: batch[[('m%d' % i, i) for i in range(k, n)]])
    elif c['via'] == 'call':
        for i in range(n):
            batch.add('m%d' % i, i)
            if c['notif'] and i == 0:
                batch.notify('note', 1)
        out = drive(c["kind"], batch.call)
    else:
        # a hand-built batch request sent through a fresh batch wrapper (nothing was add()ed to it)
        req = BatchRequest(*[Request('m%d' % i, [i], id=i + base) for i in range(n)], **({'strict': False} if c.get('lax_request') else {}))
        requests = list(req)
        out = drive(c["kind"], lambda: batch.send(req))
    rec.transitions += 1
    got = classify(out)

    if c.get('custom'):
        need = ['json_dumper', 'json_encoder', 'batch_request_class', 'request_class', 'json_loader', 'json_decoder', 'batch_response_class']
        missing = [k for k in need if not client.uses.get(k)]
        if missing:
            return bad(rec, c, 'C08:batch:configured %s not used by the client' % '/'.join(missing), need, dict(client.uses))
    # the request that went out: one document, calls have ids 1..n in order
    if len(client.sent) != 1:
        return bad(rec, c, 'C08:batch:%d transport calls for one batch' % len(client.sent), 1, len(client.sent))
    sent = json.loads(client.sent[0][0])
    sent_ids = [e.get('id') for e in sent if 'id' in e]
    if not typed_eq(sent_ids, list(range(base, n + base))):
        return bad(rec, c, 'C08:batch:request ids are not consecutive in call order', list(range(base, n + base)), sent_ids)

    # ---- reference S4 ----
    if expect_deser:
        allowed = {'deser'}
        if 'body' not in c and has_dup([e['id'] for e in doc if isinstance(e, dict) and e.get('id') is not None]):
            allowed.add('identity')
        rec.outcomes['junk:' + got[0]] += 1
        if got[0] not in allowed:
            return bad(rec, c, 'C08:batch:invalid body not refused with DeserializationError (%s)' % got[0], sorted(allowed), show(got))
        return got[0]
    if 'level' in c:
        rec.outcomes['level:%s:%s' % (c['via'], got[0])] += 1
        if c['via'] == 'call':
            ok = got[0] == 'rpc' and got[1].code == c['level'] and got[1].message == 'lvl' and typed_eq(got[1].data, [1])
        else:
            r = got[1] if got[0] == 'ok' else None
            ok = isinstance(r, BatchResponse) and r.is_error and r.error.code == c['level']
            if ok:
                try:
                    r.result
                    ok = False
                except JsonRpcError as e:
                    ok = e.code == c['level']
        if not ok:
            return bad(rec, c, 'C08:batch:batch-level error not raised for the batch', 'error %s' % c['level'], show(got))
        return got[0]

    ids = [real_id(r, n, base) for r, _ in entries]
    nonnull = [i for i in ids if i is not None]
    dup = has_dup(nonnull)
    call_ids = list(range(base, n + base))
    exact = not dup and len(nonnull) == n and all(any(typed_eq(i, c_) for i in nonnull) for c_ in call_ids)
    has_null = len(nonnull) != len(ids)
    by_id = {}
    for pos, ((r, ok), i) in enumerate(zip(entries, ids)):
        if i is not None and not isinstance(i, str):
            by_id.setdefault(i, (ok, pos))
    errors_present = [(1000 + pos) for pos, (r, ok) in enumerate(entries) if not ok]

    if strict and not exact:
        allowed = {'identity'}
    elif strict and exact:
        allowed = {'accept'} | ({'identity'} if has_null else set())      # L6
    else:
        # non-strict client: no identity errors demanded; BatchResponse itself still refuses duplicates
        allowed = {'accept'} | ({'identity'} if dup else set())
    cls = got[0]
    rec.outcomes['%s:%s:%s' % ('strict' if strict else 'lax', 'exact' if exact else 'mismatch', cls)] += 1

    if cls == 'identity':
        if 'identity' not in allowed:
            return bad(rec, c, 'C08:batch:complete response refused with IdentityError', 'accepted', show(got))
        return cls
    if cls in ('deser', 'other'):
        return bad(rec, c, 'C08:batch:%s for a well-formed response array' % cls, sorted(allowed), show(got))
    # accepted (value returned, or a server error raised)
    if 'accept' not in allowed:
        what = 'missing response' if len(nonnull) < n or not all(any(typed_eq(i, c_) for i in nonnull) for c_ in call_ids) \
            else ('duplicate id' if dup else 'unexpected response')
        return bad(rec, c, 'C08:batch:mismatching response accepted (%s)' % what, 'IdentityError', show(got))
    rec.nontrivial_n += 1
    if c['via'] == 'call':
        if cls == 'rpc':
            e = got[1]
            if e.code not in errors_present or not typed_eq(e.message, 'e%d' % (e.code - 1000)):
                return bad(rec, c, 'C08:batch:raised error is not one the server sent', errors_present, show(got))
            return cls
        # a tuple of results, attributed to the calls in the order they were made
        res = got[1]
        if errors_present and exact:
            return bad(rec, c, 'C08:batch:server error not raised', errors_present, show(got))
        if exact:
            want = [{'for': i, 'pos': by_id[i][1]} for i in call_ids]
            if not isinstance(res, tuple) or not typed_eq(list(res)[:n], want) or (not has_null and len(res) != n):
                return bad(rec, c, 'C08:batch:results not attributed to the calls in call order', want, show(got))
        else:
            # non-strict, incomplete: every returned result must be one the server sent (no invention)
            sent_results = [{'for': i, 'pos': p} for p, i in enumerate(ids)]
            if not isinstance(res, tuple) or not all(any(typed_eq(x, s) for s in sent_results) for x in res):
                return bad(rec, c, 'C08:batch:non-strict result contains a value the server did not send', sent_results, show(got))
        return cls
    # via send: BatchResponse; positions and related
    resp = got[1]
    if not isinstance(resp, BatchResponse):
        return bad(rec, c, 'C08:batch:send did not return a BatchResponse', 'BatchResponse', show(got))
    if exact:
        for i in range(n):
            r = resp[i]
            if not typed_eq(r.id, i + base) or r.related is not requests[i]:
                return bad(rec, c, 'C08:batch:response at position i is not the response to call i', 'id %d related to call %d' % (i + base, i),
                           [(x.id, getattr(x.related, 'id', None)) for x in resp])
        it_ids = [r.id for r in resp]
        if not typed_eq(it_ids[:n], call_ids):
            return bad(rec, c, 'C08:batch:iteration order is not call order', call_ids, it_ids)
    for r in resp:
        if r.related is not None and not typed_eq(r.related.id, r.id):
            return bad(rec, c, 'C08:batch:response linked to a request with another id', r.id, r.related.id)
        if r.related is None and r.id is not None and not isinstance(r.id, str) and r.id in call_ids:
            return bad(rec, c, 'C08:batch:response not linked to its request', r.id, None)
    return cls


def show(got):
    if got[0] == 'ok':
        v = got[1]
        if isinstance(v, BatchResponse):
            return ['resp'] + [(r.id, 'err' if r.is_error else r.result) for r in v]
        if isinstance(v, Response):
            return ('resp', v.id, 'err' if v.is_error else v.result)
        return ('value', v)
    if got[0] == 'rpc':
        return ('rpc', type(got[1]).__name__, got[1].code, got[1].message)
    return got


def bad(rec, c, sig, expected, observed):
    rec.violation(sig, c, expected=expected, observed=observed)
    return 'bad:' + sig


def run_single(c, rec):
    strict = c['strict']
    req_id = c['req_id']
    if 'junk' in c:
        body = json.dumps(JUNK[c['junk']])
    else:
        rel = c['rel']
        if rel == 'equal':
            rid = req_id
        elif rel == 'different':
            rid = req_id + 1 if isinstance(req_id, int) else req_id + 'x'
        elif rel == 'confused':
            rid = str(req_id) if isinstance(req_id, int) else (int(req_id) if req_id.lstrip('-').isdigit() else 7)
        else:
            rid = None
        o = {'jsonrpc': '2.0'}
        if rel != 'absent':
            o['id'] = rid
        p = c['payload']
        if p == 'succ':
            o['result'] = {'v': 1}
        elif p == 'null':
            o['result'] = None
        elif p == 'err':
            o['error'] = {'code': 4321, 'message': 'boom', 'data': None}
        elif p == 'err0':
            o['error'] = {'code': 0, 'message': ''}
        elif p == 'err-hier':
            o['error'] = {'code': 7201, 'message': 'denied'}
        else:
            o['error'] = {'code': -32601, 'message': 'Method not found'}
        body = json.dumps(o)
    ckw = dict(error_cls=HierV1) if c.get('payload') == 'err-hier' else {}
    client = make_client(c['kind'], lambda text, is_notif, kw: body, strict=strict, custom=bool(c.get('custom')), **ckw)
    request = Request('m', [1], id=req_id)
    if c['via'] == 'call':
        out = drive(c["kind"], lambda: client.call('m', 1))
    else:
        out = drive(c["kind"], lambda: client.send(request))
    rec.transitions += 1
    got = classify(out)
    if len(client.sent) != 1:
        return bad(rec, c, 'C08:single:%d transport calls' % len(client.sent), 1, len(client.sent))
    sent = json.loads(client.sent[0][0])
    if not typed_eq(sent.get('id'), req_id) or sent.get('method') != 'm':
        return bad(rec, c, 'C08:single:request document', req_id, sent)
    if c.get('custom'):
        need = ['json_dumper', 'json_encoder', 'request_class', 'json_loader', 'json_decoder', 'response_class']
        missing = [k for k in need if not client.uses.get(k)]
        if missing:
            return bad(rec, c, 'C08:single:configured %s not used by the client' % '/'.join(missing), need, dict(client.uses))
    if 'junk' in c:
        rec.outcomes['single:junk:' + got[0]] += 1
        if got[0] != 'deser':
            return bad(rec, c, 'C08:single:invalid body not refused with DeserializationError', 'deser', show(got))
        return got[0]
    mismatch = c['rel'] in ('different', 'confused')
    rec.outcomes['single:%s:%s:%s' % ('strict' if strict else 'lax', c['rel'], got[0])] += 1
    if strict and mismatch:
        if got[0] != 'identity':
            return bad(rec, c, 'C08:single:mismatching response id accepted', 'IdentityError', show(got))
        return got[0]
    if got[0] in ('identity', 'deser', 'other'):
        return bad(rec, c, 'C08:single:%s for an acceptable response' % got[0], 'accepted', show(got))
    rec.nontrivial_n += 1
    p = c['payload']
    if c['via'] == 'call':
        if p in ('succ', 'null'):
            want = {'v': 1} if p == 'succ' else None
            if got[0] != 'ok' or not typed_eq(got[1], want):
                return bad(rec, c, 'C08:single:result', want, show(got))
        else:
            code = {'err': 4321, 'err0': 0, 'err-registered': -32601, 'err-hier': 7201}[p]
            if got[0] != 'rpc' or got[1].code != code or (p == 'err-registered' and type(got[1]) is not MethodNotFoundError) or \
                    (p == 'err-hier' and type(got[1]) is not V1Denied):
                return bad(rec, c, 'C08:single:server error not raised as its typed exception', code, show(got))
    else:
        r = got[1] if got[0] == 'ok' else None
        if not isinstance(r, Response) or r.related is not request:
            return bad(rec, c, 'C08:single:response not linked to its request', 'related is the request', show(got))
        if (p in ('succ', 'null')) != r.is_success:
            return bad(rec, c, 'C08:single:success flag', p, show(got))
    return got[0]


def gen_extra(ctx):
    # (i) requests passed inline: nobody but the library holds them once send() has returned
    for kind in ('sync', 'async'):
        for strict in (True, False):
            for shape in ('single', 'batch', 'batch-notif'):
                for order in ('same', 'reversed'):
                    if shape == 'single' and order == 'reversed':
                        continue
                    yield dict(part='inline', kind=kind, strict=strict, shape=shape, order=order)
    # (ii) a hand-built BatchRequest(strict=False) in which calls share an id: a response array cannot answer every call
    patterns = [(1, 1), (1, 2, 1), (1, 1, 2), (1, 2, 2), (7, 7, 7)]
    for ids in patterns:
        alphabet = [(i, ok) for i in sorted(set(ids)) + [99] for ok in (True, False)]
        for L in range(1, len(ids) + 1):
            for entries in itertools.product(alphabet, repeat=L):
                for kind in ('sync', 'async'):
                    yield dict(part='dupreq', kind=kind, ids=ids, entries=entries)
    # (iii) E4: two / three single calls with different ids in flight on ONE asynchronous client; every call is answered with its own id,
    #       with the id of another pending call (cross-wired) or with an unknown id; every order in which the transport answers
    for n in (2, 3):
        for answers in itertools.product(('own', 'next', 'unknown'), repeat=n):
            for strict in (True, False):
                yield dict(part='overlap', n=n, answers=answers, strict=strict)


def run_inline(c, rec):
    import gc
    n = 3
    if c['shape'] == 'single':
        body = json.dumps({'jsonrpc': '2.0', 'id': 5, 'result': 'r'})
    else:
        doc = [{'jsonrpc': '2.0', 'id': i + 1, 'result': i} for i in range(n)]
        body = json.dumps(doc if c['order'] == 'same' else doc[::-1])
    client = make_client(c['kind'], lambda text, is_notif, kw: body, strict=c['strict'])
    if c['shape'] == 'single':
        out = drive(c['kind'], lambda: client.send(Request('m', [1], id=5)))
    else:
        out = drive(c['kind'], lambda: client.batch.send(BatchRequest(*([Request('m%d' % i, [i], id=i + 1) for i in range(n)] + ([Request('note', [0])] if c['shape'] == 'batch-notif' else [])))))
    rec.transitions += 1
    gc.collect()
    got = classify(out)
    if got[0] != 'ok':
        return bad(rec, c, 'C08:inline:acceptable response refused', 'accepted', show(got))
    resp = got[1]
    items = [resp] if c['shape'] == 'single' else list(resp)
    want = [(5, 'm')] if c['shape'] == 'single' else [(i + 1, 'm%d' % i) for i in range(n)]
    seen = [(r.id, getattr(r.related, 'method', None)) if getattr(r.related, 'id', None) == r.id else (r.id, 'NOT-LINKED') for r in items]
    rec.nontrivial_n += 1
    if seen != want:
        return bad(rec, c, 'C08:inline:an accepted response is not linked to the request with the same id (the request was passed inline)', want, seen)
    return 'ok'


def run_dupreq(c, rec):
    ids = list(c['ids'])
    doc = []
    for pos, (i, ok) in enumerate(c['entries']):
        o = {'jsonrpc': '2.0', 'id': i}
        o.update({'result': pos} if ok else {'error': {'code': 1000 + pos, 'message': 'e'}})
        doc.append(o)
    body = json.dumps(doc)
    client = make_client(c['kind'], lambda text, is_notif, kw: body, strict=True)
    req = BatchRequest(*[Request('m%d' % k, [k], id=i) for k, i in enumerate(ids)], strict=False)
    out = drive(c['kind'], lambda: client.batch.send(req))
    rec.transitions += 1
    got = classify(out)
    rec.outcomes['dupreq:' + got[0]] += 1
    # more calls than distinct ids: whatever the array holds, some call has no response of its own (a response array cannot repeat an id)
    if got[0] != 'identity':
        return bad(rec, c, 'C08:batch:mismatching response accepted (missing response; calls sharing an id in a non-strict request container)', 'IdentityError', show(got))
    rec.nontrivial_n += 1
    return got[0]


def run_overlap(c, rec):
    import asyncio
    from mc.core import explore_choices
    from mc.vloop import VLoop
    n, answers, strict = c['n'], list(c['answers']), c['strict']
    ids = [10 * (i + 1) for i in range(n)]
    sched = 0

    def once(env):
        async def responder(text, is_notif, kw):
            doc = json.loads(text)
            i = ids.index(doc['id'])
            await asyncio.get_running_loop().gate(('answer', i))
            rid = {'own': ids[i], 'next': ids[(i + 1) % n], 'unknown': 99}[answers[i]]
            return json.dumps({'jsonrpc': '2.0', 'id': rid, 'result': {'to': ids[i]}})
        client = make_client('async', responder, strict=strict)

        async def one(i):
            try:
                r = await client.send(Request('m', [i], id=ids[i]))
                return ('ok', r.id, r.result, getattr(r.related, 'id', None))
            except IdentityError:
                return ('identity',)
            except Exception as e:   # noqa
                return ('exc', type(e).__name__)

        async def go():
            return await asyncio.gather(*[one(i) for i in range(n)])
        loop = VLoop()
        try:
            return loop.run(go(), choose=lambda labels: env.choose(('gate', tuple(sorted(labels))), len(labels)))
        finally:
            loop.close()
    for choices, out in explore_choices(once, max_exec=5000):
        sched += 1
        rec.transitions += n
        for i in range(n):
            if answers[i] == 'own':
                ok = tuple(out[i]) == ('ok', ids[i], {'to': ids[i]}, ids[i])
                want = ('ok', ids[i])
            elif strict:
                ok = tuple(out[i]) == ('identity',)
                want = 'IdentityError'
            else:
                ok = out[i][0] == 'ok' and out[i][2] == {'to': ids[i]}
                want = 'accepted (non-strict)'
            if not ok:
                bad(rec, dict(c, choices=list(choices), call=i), 'C08:overlap:' + ('mismatching response id accepted while another call with that id is in flight' if (strict and answers[i] != 'own')
                                                                                   else 'a call made while another call is in flight did not get its own response'), want, list(out[i]))
                return 'bad'
    rec.nontrivial_n += sched
    rec.counters['overlap schedules'] += sched
    return sched


def run_case(case, rec):
    from mc.core import Recorder
    r = Recorder()
    fn = {'batch': run_batch, 'single': run_single, 'inline': run_inline, 'dupreq': run_dupreq, 'overlap': run_overlap}[case['part']]
    obs = fn(case, r)
    r.states += 1
    r.traces += 1
    rec.merge(r)
    return obs


def run(ctx):
    n = ctx.pick(3, 4)
    ctx.rule = ('E3 (adversarial environment, exhaustive): batches of n = 1..%d calls; every response array of length 0..n+1 over '
                '{id of call i, unknown id 99, type-confused "1", null} x {success, error}, which contains every permutation, '
                'omission, duplication and addition; x strict on/off x sync/async through batch.call; batch.send, a notification '
                'inside the batch and non-strict send on the arrays with distinct ids or length <= n; one junk element at every '
                'position; non-array bodies; batch-level errors; single calls over request id %r x id relation '
                '{equal, different, null, absent, type-confused} x payload x call/send. non-trivial = response accepted and '
                'attribution checked' % (n, [1, '1', 0, '', -1, 'abc']))
    ctx.assumptions += ['L6: arrays that are complete but also contain null-id entries may be accepted or refused',
                        'when several elements carry errors, which one batch.call raises is not constrained',
                        'non-strict mode: no identity error is required; duplicates may still be refused']
    ctx.bounds.update(max_calls=n)
    ctx.run_cases('C08', lambda: gen_cases(ctx), run_case, recheck_every=3001)
    oc = ctx.rec.outcomes
    ctx.guard('accepted and refused arrays both seen',
              oc.get('strict:exact:ok', 0) > 0 and oc.get('strict:mismatch:identity', 0) > 0 and oc.get('strict:exact:rpc', 0) > 0, dict(oc))


def replay(doc):
    from mc.core import Recorder, jdump
    rec = Recorder()
    obs = run_case(doc['case'], rec)
    print('observation:', obs)
    for v in rec.violations[:5]:
        print('VIOLATION-REPLAY signature=%s\n  expected=%s\n  observed=%s' % (v['signature'], jdump(v['expected'])[:300], jdump(v['observed'])[:300]))
    print('replayed: %d violation(s)' % len(rec.violations))
    return 1 if rec.violations else 0
