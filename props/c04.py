"""
C04 - methods receive exactly the caller's arguments plus the server-side context.
Mode E1 over generated programs: every syntactically valid python signature up to 3/4 parameters over the kinds
positional-only / positional-or-keyword / keyword-only / *args / **kw x defaults x context parameter placement x
function / coroutine / class based view method, crossed with all positional lists of length 0..5 and all named mappings
over subsets of the parameter names + an unknown name + the context name + the variadic names.
Oracle = Python itself: a twin function with the same signature minus the context parameter is called directly.
"""
import itertools
import json

import pjrpc
import pjrpc.server

from mc.vloop import VLoop

PO, PK, KO, VA, VK = 'po', 'pk', 'ko', 'va', 'vk'
NAMES = ['a', 'b', 'c', 'd', 'e']
RESULT = {'marker': 'R3SULT', 'n': [1, None]}


class CTX:
    tag = 'server-side context'


class FalsyContext:
    """a context object that is falsy (an empty session / mapping-like object)"""
    tag = 'falsy server-side context'

    def __len__(self):
        return 0


FALSY = FalsyContext()


def signatures(maxn):
    """all valid (kind, has_default) sequences with <= maxn parameters"""
    out = []
    for n in range(0, maxn + 1):
        for kinds in itertools.product([PO, PK, KO, VA, VK], repeat=n):
            # order
            rank = {PO: 0, PK: 1, VA: 2, KO: 3, VK: 4}
            if any(rank[kinds[i]] > rank[kinds[i + 1]] for i in range(n - 1)):
                continue
            if kinds.count(VA) > 1 or kinds.count(VK) > 1:
                continue
            flex = [i for i, k in enumerate(kinds) if k in (PO, PK, KO)]
            for defs in itertools.product((False, True), repeat=len(flex)):
                d = dict(zip(flex, defs))
                # positional parameters: no non-default after a default
                pos = [d[i] for i in flex if kinds[i] in (PO, PK)]
                if any(pos[i] and not pos[i + 1] for i in range(len(pos) - 1)):
                    continue
                out.append(tuple((kinds[i], d.get(i, False)) for i in range(n)))
    return out


def render(params):
    """params: [(name, kind, has_default)] -> python parameter list source"""
    parts = []
    seen_po = False
    star_done = False
    for i, (name, kind, dflt) in enumerate(params):
        if kind != PO and seen_po and '/' not in parts:
            parts.append('/')
        if kind == PO:
            seen_po = True
        if kind == KO and not star_done:
            parts.append('*')
            star_done = True
        if kind == VA:
            parts.append('*' + name)
            star_done = True
        elif kind == VK:
            parts.append('**' + name)
        else:
            parts.append(name + ('="D_%s"' % name if dflt else ''))
    if seen_po and '/' not in parts:
        parts.append('/')
    return ', '.join(parts)


def make_fn(params, log, is_async=False, is_method=False, name='f'):
    src_params = render(params)
    if is_method:
        src_params = 'self' + (', ' + src_params if src_params else '')
    names = [p[0] for p in params]
    body = 'dict(%s)' % ', '.join('%s=%s' % (n, n) for n in names)
    if is_method:
        src = 'def %s(%s):\n    return _rec(%s, self)\n' % (name, src_params, body)
    else:
        src = '%sdef %s(%s):\n    return _rec(%s, None)\n' % ('async ' if is_async else '', name, src_params, body)

    def _rec(loc, self_):
        log.append((loc, self_))
        return RESULT
    ns = {'_rec': _rec}
    exec(src, ns)
    return ns[name], src


def norm(v):
    if isinstance(v, tuple):
        return [norm(x) for x in v]
    if isinstance(v, list):
        return [norm(x) for x in v]
    if isinstance(v, dict):
        return {k: norm(x) for k, x in v.items()}
    return v


def inputs(names_all):
    for n in range(0, 6):
        yield ['P%d' % i for i in range(n)]
    # JSON null / falsy values as arguments (must arrive as given, never be replaced by a default)
    for n in range(1, 4):
        for pos in range(n):
            for v in (None, 0, ''):
                yield [v if i == pos else 'P%d' % i for i in range(n)]
    # ONE positional argument that is itself an object whose member names are the parameter names (an argument, not a by-name call)
    own = [n for n in names_all if n not in ('zz', 'ctx', 'context')]
    for r in sorted({len(own), max(len(own) - 1, 0), 1} - {0}):
        yield [{k: 'N_%s' % k for k in own[:r]}]
        yield [{k: 'N_%s' % k for k in own[:r]}, 'P1']
    for r in range(0, len(names_all) + 1):
        for sub in itertools.combinations(names_all, r):
            yield {k: 'N_%s' % k for k in sub}
            if 1 <= r <= 2:
                for v in (None, 0):
                    yield {k: (v if i == 0 else 'N_%s' % k) for i, k in enumerate(sub)}


def special(sig):
    s = sorted({'*args' if k == VA else '**kw' if k == VK else 'posonly' for k, _ in sig if k in (VA, VK, PO)})
    return 'sig-has[%s]' % ','.join(s)


# parameter names that coincide with names the library is likely to use internally
AWKWARD_NAMES = ['signature', 'method', 'params', 'exclude', 'self', 'cls', 'args', 'kwargs', 'context', 'request', 'name', 'validator', 'bound', 'handler', 'id']


def run_awkward(case, rec):
    """methods whose parameters are called like things the library itself handles (signature, method, params, self ...): named and
    positional calls bind exactly like a direct python call"""
    name = case['name']
    obs = []
    for disp in ('sync', 'async'):
        for flavour in ('function', 'coroutine' if disp == 'async' else 'function-merged'):
            log = []
            ns = {'_log': log}
            exec('%sdef f(a, %s="D"):\n    _log.append(dict(a=a, v=%s))\n    return %r\n' % ('async ' if flavour == 'coroutine' else '', name, name, RESULT), ns)
            d = pjrpc.server.AsyncDispatcher() if disp == 'async' else pjrpc.server.Dispatcher()
            target = pjrpc.server.MethodRegistry() if flavour.endswith('-merged') else d.registry
            target.add(ns['f'], name='f')
            if target is not d.registry:
                d.add_methods(target)
            for inp, want in (({'a': 1, name: 2}, dict(a=1, v=2)), ({name: 2, 'a': 1}, dict(a=1, v=2)), ([1, 2], dict(a=1, v=2)), ({'a': 1}, dict(a=1, v='D')),
                              ({name: 2}, None), ({'a': 1, name: 2, 'zz': 3}, None), ([1, 2, 3], None)):
                del log[:]
                text = json.dumps({'jsonrpc': '2.0', 'id': 1, 'method': 'f', 'params': inp})
                try:
                    if disp == 'async':
                        loop = VLoop()
                        try:
                            r = loop.run(d.dispatch(text))
                        finally:
                            loop.close()
                    else:
                        r = d.dispatch(text)
                    resp = json.loads(r[0])
                except Exception as e:   # noqa
                    resp = {'raised': '%s: %s' % (type(e).__name__, e)}
                rec.transitions += 1
                code = resp.get('error', {}).get('code') if 'error' in resp else None
                ok = (code is None and log == [want] and resp.get('result') == RESULT) if want is not None else (code == -32602 and not log)
                rec.outcomes['%s:%s' % ('call' if want else 'refuse', 'ok' if ok else 'BAD')] += 1
                if not ok:
                    rec.violation('C04:%s:sig-has[]' % ('bindable arguments refused / changed for a parameter with an awkward name' if want is not None
                                                        else 'unbindable arguments not refused with -32602 for a parameter with an awkward name'),
                                  dict(case, disp=disp, flavour=flavour, input=inp), expected=want if want is not None else -32602, observed=dict(response=resp, saw=list(log)))
                obs.append(ok)
    rec.states += 1
    rec.traces += 1
    rec.nontrivial_n += 1
    return tuple(obs)


def run_mutating(case, rec):
    """a method that consumes its structured arguments in place (pop / sort / setdefault); the byte-identical request sent again
    must hand it the caller's arguments again, not what the first call left over"""
    obs = []
    for disp in ('sync', 'async'):
        log = []
        ns = {'_log': log, '_copy': __import__('copy').deepcopy}
        exec(('async ' if disp == 'async' else '') + 'def take(items, opts=None):\n    _log.append(_copy((items, opts)))\n    first = items.pop(0) if items else None\n'
             '    if isinstance(opts, dict):\n        opts.setdefault("seen", True)\n    return first\n', ns)
        d = pjrpc.server.AsyncDispatcher() if disp == 'async' else pjrpc.server.Dispatcher()
        d.add(ns['take'], name='take')
        for params in ([[1, 2, 3]], [[1, 2, 3], {'k': 1}], {'items': [[1], 2], 'opts': {}}):
            text = json.dumps({'jsonrpc': '2.0', 'id': 7, 'method': 'take', 'params': params})
            btext = json.dumps([{'jsonrpc': '2.0', 'id': 7, 'method': 'take', 'params': params}, {'jsonrpc': '2.0', 'id': 8, 'method': 'take', 'params': params}])
            for t in (text, text, btext, text):
                del log[:]
                if disp == 'async':
                    loop = VLoop()
                    try:
                        r = loop.run(d.dispatch(t))
                    finally:
                        loop.close()
                else:
                    r = d.dispatch(t)
                rec.transitions += 1
                want_args = (params[0], params[1] if len(params) > 1 else None) if isinstance(params, list) else (params['items'], params['opts'])
                n = 2 if t is btext else 1
                if log != [want_args] * n and [list(x) for x in log] != [list(want_args)] * n:
                    rec.violation('C04:a method did not receive the caller\'s arguments when the same request was sent again:sig-has[]', dict(case, disp=disp, params=params),
                                  expected=[want_args] * n, observed=list(log))
                    break
                obs.append(True)
    rec.states += 1
    rec.traces += 1
    rec.nontrivial_n += 1
    return tuple(obs)


def run_returns(case, rec):
    """return values that look like something else: an error OBJECT that is returned (not raised) is a result like any other value the
    encoder knows - e.g. last_error('backup-2') handing out a stored error"""
    import pjrpc.common.exceptions as exc
    obs = []
    values = {
        'stored': lambda: exc.JsonRpcError(5, 'stored', data={'x': [1]}),
        'stored_nodata': lambda: exc.JsonRpcError(6, 'stored'),
        'typed': lambda: exc.MethodNotFoundError(),
        'listed': lambda: [exc.JsonRpcError(5, 'stored'), 1],
        'nested': lambda: {'last': exc.InvalidParamsError(data='why')},
        'none': lambda: None, 'false': lambda: False, 'zero': lambda: 0, 'empty': lambda: '',
    }
    for disp in ('sync', 'async'):
        handled = []
        if disp == 'async':
            async def eh(rq, cx, error):
                handled.append(error.code)
                return error
        else:
            def eh(rq, cx, error):
                handled.append(error.code)
                return error
        d = (pjrpc.server.AsyncDispatcher if disp == 'async' else pjrpc.server.Dispatcher)(error_handlers={None: [eh]})
        for name, make in values.items():
            if disp == 'async':
                async def f(_make=make):
                    return _make()
            else:
                def f(_make=make):
                    return _make()
            d.add(f, name=name)

        def go(text):
            if disp == 'async':
                loop = VLoop()
                try:
                    return loop.run(d.dispatch(text))
                finally:
                    loop.close()
            return d.dispatch(text)
        enc = lambda v: json.loads(json.dumps(v, cls=pjrpc.common.JSONEncoder))   # noqa
        for name, make in values.items():
            for shape in ('single', 'batch'):
                one = {'jsonrpc': '2.0', 'id': 3, 'method': name}
                del handled[:]
                try:
                    r = go(json.dumps(one if shape == 'single' else [one, {'jsonrpc': '2.0', 'id': 4, 'method': 'zero'}]))
                    doc = json.loads(r[0])
                    got = doc if shape == 'single' else doc[0]
                except Exception as e:   # noqa
                    got = {'raised': repr(e)[:200]}
                rec.transitions += 1
                want = {'jsonrpc': '2.0', 'id': 3, 'result': enc(make())}
                if got != want or handled:
                    rec.violation('C04:the return value did not become the result unchanged (a returned %s):sig-has[]' % ('error object' if name in ('stored', 'stored_nodata', 'typed', 'listed', 'nested') else 'falsy value'),
                                  dict(case, disp=disp, method=name, shape=shape), expected=want, observed=dict(answer=got, error_handlers_called_with=list(handled)))
                obs.append(got == want)
    rec.states += 1
    rec.traces += 1
    rec.nontrivial_n += 1
    return tuple(obs)


def run_unresolved(case, rec):
    """annotations the interpreter cannot evaluate at run time (names imported under `if TYPE_CHECKING:`, forward references): binding is
    about names, the method is called all the same"""
    obs = []
    for disp in ('sync', 'async'):
        for where in ('function', 'context', 'view'):
            log = []
            ns = {'_log': log}
            pre = 'async ' if disp == 'async' else ''
            if where == 'view':
                exec('class V(ViewMixin):\n    def __init__(self, context: "Undefined.Request"):\n        super().__init__()\n'
                     '    %sdef f(self, a: "Missing", b: "Also.Missing" = 2) -> "Nope":\n        _log.append((a, b))\n        return [a, b]\n' % pre,
                     dict(ns, ViewMixin=pjrpc.server.ViewMixin), ns)
            elif where == 'context':
                exec('%sdef f(ctx: "Undefined.Request", a: "Missing", b: "Also.Missing" = 2) -> "Nope":\n    _log.append((a, b))\n    return [a, b]\n' % pre, ns)
            else:
                exec('%sdef f(a: "Missing", b: "Also.Missing" = 2) -> "Nope":\n    _log.append((a, b))\n    return [a, b]\n' % pre, ns)
            d = pjrpc.server.AsyncDispatcher() if disp == 'async' else pjrpc.server.Dispatcher()
            if where == 'view':
                d.registry.view(ns['V'], context='context')
            elif where == 'context':
                d.add(ns['f'], name='f', context='ctx')
            else:
                d.add(ns['f'], name='f')
            for params, want in (([1], [1, 2]), ([1, 3], [1, 3]), ({'a': 1}, [1, 2]), ({'b': 5, 'a': 0}, [0, 5]), ([], None), ({'zz': 1}, None), ([1, 2, 3], None)):
                del log[:]
                text = json.dumps({'jsonrpc': '2.0', 'id': 1, 'method': 'f', 'params': params})
                try:
                    if disp == 'async':
                        loop = VLoop()
                        try:
                            r = loop.run(d.dispatch(text, context='CTX'))
                        finally:
                            loop.close()
                    else:
                        r = d.dispatch(text, context='CTX')
                    resp = json.loads(r[0])
                except Exception as e:   # noqa
                    resp = {'raised': repr(e)[:200]}
                rec.transitions += 1
                ok = (resp.get('result') == want and len(log) == 1) if want is not None else (resp.get('error', {}).get('code') == -32602 and not log)
                if not ok:
                    rec.violation('C04:%s:sig-has[]' % ('bindable arguments refused / changed for a method whose annotations cannot be evaluated' if want is not None
                                                        else 'unbindable arguments not refused with -32602 for a method whose annotations cannot be evaluated'),
                                  dict(case, disp=disp, where=where, params=params), expected=want if want is not None else -32602, observed=resp)
                obs.append(ok)
    rec.states += 1
    rec.traces += 1
    rec.nontrivial_n += 1
    return tuple(obs)


def gen_cases(ctx):
    yield dict(mutating=True)
    yield dict(returns=True)
    yield dict(unresolved=True)
    for name in AWKWARD_NAMES:
        yield dict(awkward=True, name=name)
    sigs = signatures(ctx.pick(4, 5))
    for si, sig in enumerate(sigs):
        n = len(sig)
        # context placements: none; by name at each position (kinds pk / ko only); first positional; view constructor
        placements = [('none', None)]
        for pos in range(n + 1):
            placements.append(('name', pos))
        placements.append(('positional', 0))
        placements.append(('positional-po', 0))     # the context parameter itself is positional-only: def f(ctx, /, ...)
        placements.append(('view', None))
        for mode, pos in placements:
            yield dict(sig=sig, mode=mode, pos=pos)


def build_params(sig, mode, pos):
    """-> (full params incl. context, twin params) or None if the placement is not expressible"""
    params = [(NAMES[i], k, d) for i, (k, d) in enumerate(sig)]
    if mode in ('none', 'view'):
        return params, params
    if mode in ('positional', 'positional-po'):
        # context is the first positional parameter
        kind = PO if (mode == 'positional-po' or (params and params[0][1] == PO)) else PK
        full = [('ctx', kind, False)] + params
        # a parameter without default may not follow one with default: ctx has none and comes first - always fine
        return full, params
    # by name: insert ctx at position pos with a kind that fits its neighbours (pk or ko), try both default / no default
    outs = []
    left = params[pos - 1][1] if pos > 0 else None
    right = params[pos][1] if pos < len(params) else None
    rank = {PO: 0, PK: 1, VA: 2, KO: 3, VK: 4}
    for kind in (PK, KO):
        if left is not None and rank[left] > rank[kind]:
            continue
        if right is not None and rank[kind] > rank[right]:
            continue
        outs.append(kind)
    if not outs:
        return None
    kind = outs[0]
    # default needed if a preceding positional parameter has a default and ctx is positional-or-keyword
    need_default = kind == PK and any(d for (_, k, d) in params[:pos] if k in (PO, PK))
    if kind == PK and not need_default and any((not d) for (_, k, d) in params[pos:] if k in (PO, PK)) is False:
        pass
    full = params[:pos] + [('ctx', kind, need_default)] + params[pos:]
    # validity: no non-default positional after default
    posd = [d for (_, k, d) in full if k in (PO, PK)]
    if any(posd[i] and not posd[i + 1] for i in range(len(posd) - 1)):
        return None
    return full, params


def run_case(case, rec):
    if case.get('awkward'):
        return run_awkward(case, rec)
    if case.get('mutating'):
        return run_mutating(case, rec)
    if case.get('returns'):
        return run_returns(case, rec)
    if case.get('unresolved'):
        return run_unresolved(case, rec)
    sig = tuple(tuple(x) for x in case['sig'])
    mode, pos = case['mode'], case['pos']
    bp = build_params(sig, mode, pos)
    if bp is None:
        return 'skip'
    full, twin_params = bp
    sp = special(sig)
    twin_log = []
    twin, twin_src = make_fn(twin_params, twin_log, name='twin')
    names = [p[0] for p in twin_params]
    names_all = names + ['zz'] + (['ctx'] if mode in ('name', 'positional', 'positional-po') else ['context'])
    flavours = []
    if mode == 'view':
        # 'view-ctxname': the view is registered with a context NAME that coincides with a parameter of the method
        # 'view-merged' / 'function-merged': registered on a MethodRegistry that is then merged into the dispatcher
        # 'view-static' / 'view-class': the exposed member is a @staticmethod / @classmethod of the view (no instance parameter to drop)
        flavours = [('sync', 'view'), ('async', 'view'), ('sync', 'view-ctxname'), ('sync', 'view-merged'), ('sync', 'view-static'), ('async', 'view-class')]
    else:
        # 'coroutine-wrapped': a plain function that returns a coroutine (a coroutine function behind an ordinary decorator)
        # 'partial': registered as functools.partial(fn); 'decorator-object': an instance of a class based decorator (__call__(*args, **kwargs) + update_wrapper)
        flavours = [('sync', 'function'), ('async', 'function'), ('async', 'coroutine'), ('sync', 'function-merged'), ('async', 'coroutine-wrapped'),
                    ('sync', 'partial'), ('sync', 'decorator-object')]
    obs = []
    for disp, flavour in flavours:
        log = []
        d = pjrpc.server.AsyncDispatcher() if disp == 'async' else pjrpc.server.Dispatcher()
        target = pjrpc.server.MethodRegistry() if flavour.endswith('-merged') else d.registry
        if flavour.startswith('view'):
            if flavour in ('view-static', 'view-class'):
                meth, src = make_fn(full, log, is_method=(flavour == 'view-class'), name='f')
                meth = staticmethod(meth) if flavour == 'view-static' else classmethod(meth)
            else:
                meth, src = make_fn(full, log, is_method=True, name='f')

            class V(pjrpc.server.ViewMixin):
                def __init__(self, context):
                    super().__init__()
                    self.context = context
            V.f = meth
            try:
                target.view(V, context=(names[0] if (flavour == 'view-ctxname' and names) else 'context'))
            except Exception as e:   # noqa
                rec.violation('C04:registering a view with a public %s raised %s' % (
                    {'view-static': 'static method', 'view-class': 'class method'}.get(flavour, 'method'), type(e).__name__),
                    dict(sig=sig, mode=mode, pos=pos, disp=disp, flavour=flavour, source=src.split('\n')[0]), expected='registered', observed='%s: %s' % (type(e).__name__, e))
                continue
        else:
            fn, src = make_fn(full, log, is_async=flavour.startswith('coroutine'), name='f')
            if flavour == 'coroutine-wrapped':
                import functools
                co_fn = fn

                @functools.wraps(co_fn)
                def fn(*a, **kw):
                    return co_fn(*a, **kw)
            if flavour == 'partial':
                import functools
                fn = functools.partial(fn)
            elif flavour == 'decorator-object':
                import functools
                inner = fn

                class Counted:
                    def __init__(self, f):
                        functools.update_wrapper(self, f)
                        self.f = f
                        self.calls = 0

                    def __call__(self, *args, **kwargs):
                        self.calls += 1
                        return self.f(*args, **kwargs)
                fn = Counted(inner)
            if mode == 'none':
                target.add(fn, name='f')
            elif mode == 'name':
                target.add(fn, name='f', context='ctx')
            else:
                target.add(fn, name='f', context='ctx', positional=True)
        if target is not d.registry:
            d.add_methods(target)
        for ctxobj, inp in ((c_, i_) for c_ in ((CTX, FALSY) if mode != 'none' else (CTX,)) for i_ in inputs(names_all)):
            # ---- the oracle: python binds the twin
            del twin_log[:]
            try:
                if isinstance(inp, list):
                    twin(*inp)
                else:
                    twin(**inp)
                want = ('call', norm(twin_log[0][0]))
            except TypeError:
                want = ('refuse', None)
            # ---- the implementation
            del log[:]
            text = json.dumps({'jsonrpc': '2.0', 'id': 1, 'method': 'f', 'params': inp})
            try:
                if disp == 'async':
                    loop = VLoop()
                    try:
                        r = loop.run(d.dispatch(text, context=ctxobj))
                    finally:
                        loop.close()
                else:
                    r = d.dispatch(text, context=ctxobj)
                resp = json.loads(r[0])
            except Exception as e:   # noqa
                resp = {'raised': '%s: %s' % (type(e).__name__, e)}
            rec.transitions += 1
            got_code = resp.get('error', {}).get('code') if 'error' in resp else None
            c = dict(sig=sig, mode=mode, pos=pos, disp=disp, flavour=flavour, input=inp, source=src.split('\n')[0], falsy_context=ctxobj is FALSY)
            problem = None
            if 'raised' in resp:
                problem = 'dispatch raised'
            elif want[0] == 'refuse':
                if got_code != -32602:
                    problem = 'unbindable arguments not refused with -32602 (%s)' % ('executed' if log else 'code %s' % got_code)
                elif log:
                    problem = 'body ran although the arguments do not bind'
            else:
                if got_code is not None:
                    problem = 'bindable arguments refused with %s' % got_code
                elif len(log) != 1:
                    problem = 'body ran %d times' % len(log)
                else:
                    loc, self_ = log[0]
                    loc = dict(loc)
                    if flavour in ('view-static', 'view-class'):
                        ctxv = ctxobj       # a static / class method cannot see the instance the context was given to
                    else:
                        ctxv = loc.pop('ctx', None) if mode in ('name', 'positional', 'positional-po') else (self_.context if self_ is not None else None)
                    if mode != 'none' and ctxv is not ctxobj:
                        problem = 'context parameter did not receive the server-side context%s' % (' (falsy context object)' if ctxobj is FALSY else '')
                    elif norm(loc) != want[1]:
                        problem = 'method saw other arguments than a direct call binds'
                    elif resp.get('result') != RESULT:
                        problem = 'result changed on the way back'
            rec.outcomes['%s:%s' % (want[0], 'ok' if problem is None else 'BAD')] += 1
            if problem:
                rec.violation('C04:%s:%s' % (problem, sp), c, expected=want, observed=dict(response=resp, saw=[norm(x[0]) if not isinstance(x[0].get('ctx'), type) else {k: (v if k != 'ctx' else '<CTX>') for k, v in x[0].items()} for x in log]))
            obs.append((disp, flavour, repr(inp), problem))
        rec.counters['programs'] += 1
    if mode in ('name', 'positional'):
        obs.append(double_registration(sig, mode, full, twin_params, sp, rec))
    rec.states += 1
    rec.traces += 1
    if sp == 'sig-has[]':
        rec.nontrivial_n += 1
    return tuple(obs)


def double_registration(sig, mode, full, twin_params, sp, rec):
    """
    the SAME function object registered twice on one dispatcher: as 'f' with its context parameter designated, and as
    'g' without any context (there 'ctx' is an ordinary parameter).  Whatever is cached per function must not make one
    registration behave like the other, whichever is called first.
    """
    out = []
    names_f = [p[0] for p in twin_params] + ['zz', 'ctx']
    for first in ('g', 'f'):
        log = []
        fn, src = make_fn(full, log, name='f')
        d = pjrpc.server.Dispatcher()
        if mode == 'name':
            d.add(fn, name='f', context='ctx')
        else:
            d.add(fn, name='f', context='ctx', positional=True)
        d.add(fn, name='g')
        # a DIFFERENT function whose signature equals f's once the context parameter is removed
        sib_log = []
        sib, _ = make_fn(twin_params, sib_log, name='sib')
        d.add(sib, name='sib')
        tl_f, tl_g = [], []
        twin_f, _ = make_fn(twin_params, tl_f, name='twin')
        twin_g, _ = make_fn(full, tl_g, name='twin')
        for target in ((first,) + ('f', 'sib', 'g', 'sib', 'f')):
            twin, tl = (twin_f, tl_f) if target in ('f', 'sib') else (twin_g, tl_g)
            for inp in inputs(names_f):
                if isinstance(inp, dict) and len(inp) > 3:
                    continue
                del tl[:]
                try:
                    twin(*inp) if isinstance(inp, list) else twin(**inp)
                    want = ('call', norm(tl[0][0]))
                except TypeError:
                    want = ('refuse', None)
                del log[:]
                del sib_log[:]
                text = json.dumps({'jsonrpc': '2.0', 'id': 1, 'method': target, 'params': inp})
                try:
                    resp = json.loads(d.dispatch(text, context=CTX)[0])
                    if target == 'sib':
                        log.extend(sib_log)
                except Exception as e:   # noqa
                    resp = {'raised': '%s: %s' % (type(e).__name__, e)}
                rec.transitions += 1
                code = resp.get('error', {}).get('code') if 'error' in resp else None
                problem = None
                if 'raised' in resp:
                    problem = 'dispatch raised'
                elif want[0] == 'refuse':
                    if code != -32602 or log:
                        problem = 'unbindable arguments not refused with -32602 (%s)' % ('executed' if log else 'code %s' % code)
                else:
                    if code is not None:
                        problem = 'bindable arguments refused with %s' % code
                    elif len(log) != 1:
                        problem = 'body ran %d times' % len(log)
                    else:
                        loc = dict(log[0][0])
                        if target == 'f':
                            if loc.pop('ctx', None) is not CTX:
                                problem = 'context parameter did not receive the server-side context'
                        if target == 'sib' and 'ctx' in loc:
                            problem = 'a method without context parameter received a context'
                        if problem is None and norm(loc) != want[1]:
                            problem = 'method saw other arguments than a direct call binds'
                if problem:
                    rec.violation('C04:%s:%s' % (problem + (' [same function registered with and without context]' if sp == 'sig-has[]' else ''), sp),
                                  dict(sig=sig, mode=mode, double_registration=True, called_first=first, target=target, input=inp, source=src.split('\n')[0]),
                                  expected=want, observed=dict(response=resp))
                out.append(problem)
    return tuple(out)


def run(ctx):
    nsig = len(signatures(ctx.pick(4, 5)))
    ctx.rule = ('E1 over programs: all %d valid signatures with <= %d parameters over {positional-only, positional-or-keyword, '
                'keyword-only, *args, **kw} x defaults; context parameter: none / by name at every position / first positional / '
                'view constructor; function (both dispatchers), coroutine, class based view method; inputs: every positional list '
                'of length 0..5 and every named mapping over subsets of parameter names + unknown name + context name. state = one '
                '(signature, context placement) program with all its flavours and inputs; non-trivial = signature without '
                'variadic / positional-only parameters (those are the open known finding)' % (nsig, ctx.pick(4, 5)))
    ctx.assumptions += ['python\'s own binding of a twin function (same signature minus the context parameter) is the oracle']
    ctx.run_cases('C04', lambda: gen_cases(ctx), run_case, recheck_every=997)
    oc = ctx.rec.outcomes
    ctx.guard('bindable and unbindable inputs both seen', oc.get('call:ok', 0) > 1000 and oc.get('refuse:ok', 0) > 1000, dict(oc))


def replay(doc):
    from mc.core import Recorder, jdump
    rec = Recorder()
    c = doc['case']
    if c.get('mutating'):
        run_case(dict(mutating=True), rec)
    elif c.get('returns'):
        run_case(dict(returns=True), rec)
    elif c.get('unresolved'):
        run_case(dict(unresolved=True), rec)
    elif c.get('awkward'):
        run_case(dict(awkward=True, name=c['name']), rec)
    else:
        run_case(dict(sig=c['sig'], mode=c['mode'], pos=c['pos']), rec)
    vs = [v for v in rec.violations if v['case'].get('input') == c.get('input') and v['case'].get('flavour') == c.get('flavour') and v['case'].get('disp') == c.get('disp')] or rec.violations
    for v in vs[:5]:
        print('VIOLATION-REPLAY signature=%s\n  case=%s\n  expected=%s\n  observed=%s' % (
            v['signature'], jdump(v['case'])[:300], jdump(v['expected'])[:300], jdump(v['observed'])[:300]))
    print('replayed: %d violation(s)' % len(vs))
    return 1 if vs else 0
