"""
C01 - every request text gets a well-formed JSON-RPC 2.0 response (or nothing); dispatch never raises.
Mode E1 over three exhaustive generators (token strings, value-shaped documents, lexical edges) x
dispatcher kind x max_batch_size.  Invariant oracle built on S1 (strict JSON) and S2 (wire predicates).
"""
import itertools
import json

from mc import jsonstrict
from mc.harness import methods
from mc.harness.server import Sys
from mc.refmodel import wire
from mc.refmodel.server import REQ

from .common_server import norm


def const7(bound):
    return 7


# methods never echo their arguments here: a method returning a non-finite float would break the
# premise "registered methods return JSON-encodable values"
def echo_a(bound):
    return bound['a']


def rich_value(bound):
    return {1: 'one', 'total': 2, None: 3, 2.5: (1, (2, None)), 'z': {'b': 1, 3: 'x'}}


TABLE = {
    'ok': dict(kind='ret', params=[('a', 0), ('b', 0)], result=const7),
    'add': dict(kind='ret', params=[('a', REQ), ('b', REQ)], result=const7),
    'nop': dict(kind='ret', params=[], result=methods.null_result),
    'perr': methods.STD_TABLE['perr'],
    'perr0': methods.STD_TABLE['perr0'],
    'boom': methods.STD_TABLE['boom'],
    'boomt': methods.STD_TABLE['boomt'],
    'é': dict(kind='ret', params=[('a', 0)], result=const7),
    'perrz': dict(kind='perr', params=[], code=0, message='zero', cls='base'),
    'perre': dict(kind='perr', params=[], code=17, message='', data=None, cls='base'),
    # a JSON-encodable value that is not in JSON normal form: non-string keys of several types, tuples
    'rich': dict(kind='ret', params=[], result=rich_value, normalise=True),
    # returns its argument (used with nested containers only: the response has to be serialised again)
    'echo': dict(kind='ret', params=[('a', 0)], result=echo_a),
}
# handled by register_internal_failures(), known to the reference as 'internal'
INTERNAL = {'vboom': dict(kind='internal', params=[]), 'valboom': dict(kind='internal', params=[]), 'pmax': dict(kind='internal', params=[])}
REF_TABLE = dict(TABLE, **INTERNAL)

TOKENS = ['{', '}', '[', ']', ',', ':', '"jsonrpc"', '"2.0"', '"method"', '"ok"', '"id"', '1']


def g1(ctx):
    """all token strings of length <= L"""
    for disp, L in (('sync', ctx.pick(5, 6)), ('async', ctx.pick(4, 5))):
        for mbs in (None, 1):
            if mbs == 1 and not ctx.quick:
                continue    # thorough: the size limit is exercised by G2; keep the 3M-text space for one config
            for n in range(0, L + 1):
                for toks in itertools.product(TOKENS, repeat=n):
                    yield dict(g='G1', disp=disp, mbs=mbs, text=''.join(toks))


JSONRPC = ['__absent__', '2.0', '1.0', 2.0, 2, None, [], {}, ['2.0'], True]
IDS = ['__absent__', None, 1, 0, -1, 2 ** 64, 'a', '', '1', 1.5, 1.0, True, False, [], {}]
METHODS = ['__absent__', 'ok', 'add', 'nop', 'perr', 'perr0', 'boom', 'boomt', 'nope', '', 1, None, [], {}, 'vboom', 'valboom', 'pmax', 'perrz', 'perre', 'rich']
PARAMS = ['__absent__', [], {}, [1], {'a': 1}, [1, 2, 3], {'zz': 1}, None, 1, 'x', True]


def absent(v):
    return isinstance(v, str) and v == '__absent__'


def obj(jsonrpc, id, method, params, extra):
    o = {}
    if not absent(jsonrpc):
        o['jsonrpc'] = jsonrpc
    if not absent(method):
        o['method'] = method
    if not absent(params):
        o['params'] = params
    if not absent(id):
        o['id'] = id
    if extra:
        o['extra'] = [1]
    return o


def call(method, id='__absent__', params='__absent__'):
    return obj('2.0', id, method, params, False)


ARRAY_ALPHABET = [
    call('ok', 1), call('ok'), call('nop', 2), call('nop'), call('perr', 3), call('perr'), call('boom', 4),
    call('boom'), call('nope', 5), call('add', 6, [1]),
    1, {}, [], {'jsonrpc': '2.0', 'method': 1, 'id': 7},
    call('ok', 0), call('boom', ''), call('nop', 0), call('ok', 1), call('ok', None),
    call('vboom', 8), call('valboom'), call('pmax', 9, [1, 2]), call('perrz', 10), call('perre', 11),
]


DISPS = ['sync', 'async', 'async-seq', 'async-wrapped', 'sync-custom', 'async-custom', 'sync-mw', 'async-mw', 'async-conc2']


def g2(ctx):
    for disp in DISPS:
        for j, i, m, p, x in itertools.product(JSONRPC, IDS, METHODS, PARAMS, (False, True)):
            yield dict(g='G2o', disp=disp, mbs=None, text=json.dumps(obj(j, i, m, p, x)))
        for v in [None, True, False, 0, 1, -1, 1.5, '', 'x', 2 ** 64]:
            yield dict(g='G2s', disp=disp, mbs=None, text=json.dumps(v))
        for n in range(0, ctx.pick(3, 4) + 1):
            for mbs in (None, 0, 1, 2, n):
                if mbs is not None and n >= 4 and mbs not in (2, n):
                    continue
                for elems in itertools.product(range(len(ARRAY_ALPHABET)), repeat=n):
                    yield dict(g='G2a', disp=disp, mbs=mbs, text=json.dumps([ARRAY_ALPHABET[e] for e in elems]))


DIGITS = [1, 19, 20, 308, 309, 4299, 4300, 4301, 100000]
FLOATS = ['1e999', '-1e999', '-0', '0.0', '1E400', '1e-999', 'NaN', 'Infinity', '-Infinity', '-']
ESCAPES = ['\\"', '\\\\', '\\/', '\\b', '\\f', '\\n', '\\r', '\\t', '\\u0000', '\\u00e9', '\\ud800', '\\udc00',
           '\\ud83d\\ude00', '\\x', '\\u12', 'é', '\U0001F600', '\x01', '\x7f', '\ud800', '﻿', ' ']


def positions(lit, echo=False):
    """a literal placed at top level, as id, in params, in a batch"""
    yield lit
    yield '{"jsonrpc":"2.0","method":"ok","id":%s}' % lit
    yield '{"jsonrpc":"2.0","method":"ok","params":[%s],"id":1}' % lit
    yield '{"jsonrpc":"2.0","method":"ok","params":{"a":%s},"id":1}' % lit
    yield '{"jsonrpc":"2.0","method":"ok","params":{"a":%s}}' % lit
    yield '{"jsonrpc":"2.0","method":"nope","params":[%s],"id":1}' % lit
    yield '{"jsonrpc":"2.0","method":"vboom","params":[%s],"id":1}' % lit
    yield '{"jsonrpc":"2.0","method":"pmax","params":[%s],"id":1}' % lit
    yield '{"jsonrpc":"2.0","method":"boom","params":[%s],"id":1}' % lit
    if echo:
        # (strings only: a method echoing a non-finite float would break the premise 'methods return JSON-encodable values')
        yield '{"jsonrpc":"2.0","method":"echo","params":[%s],"id":1}' % lit
        yield '[{"jsonrpc":"2.0","method":"echo","params":{"a":%s},"id":1},{"jsonrpc":"2.0","method":"echo","params":[%s]}]' % (lit, lit)
    yield '{"jsonrpc":%s,"method":"ok","id":1}' % lit
    yield '{"jsonrpc":"2.0","method":%s,"id":1}' % lit
    yield '{"jsonrpc":"2.0","method":"ok","params":%s,"id":1}' % lit
    yield '[{"jsonrpc":"2.0","method":"ok","id":%s},{"jsonrpc":"2.0","method":"ok","id":2}]' % lit
    yield '[{"jsonrpc":"2.0","method":"ok","id":1},{"jsonrpc":"2.0","method":"ok","params":[%s]}]' % lit
    yield '[%s]' % lit
    yield '{"extra":%s,"jsonrpc":"2.0","method":"ok","id":1}' % lit


# nesting around the interpreter's limits: the Python recursion limit (1000) and the C-level limit of the json scanner (~1500)
DEEP = [100, 500, 900, 990, 995, 1000, 1005, 1100, 1400, 1490, 1495, 1496, 1500, 1503, 1510, 2000, 5000, 20000, 100000]


def g3_texts(ctx):
    for d in DIGITS:
        for sign in ('', '-'):
            lit = sign + '1' + '0' * (d - 1)
            yield from positions(lit)
            yield from positions(lit + '.5')
            yield from positions('1e' + lit)
    for f in FLOATS:
        yield from positions(f)
    for e in ESCAPES:
        yield from positions('"%s"' % e, echo=True)
        yield '{"jsonrpc":"2.0","method":"%s","id":1}' % e
        yield '{"jsonrpc":"2.0","method":"ok","params":{"%s":1},"id":1}' % e
        yield '{"jsonrpc":"2.0","method":"ok","id":"%s"}' % e
        yield '{"%s":1,"jsonrpc":"2.0","method":"ok","id":"x"}' % e
    yield '{"jsonrpc":"2.0","method":"\\u00e9","id":1}'
    yield '{"jsonrpc":"2.0","method":"é","params":[1],"id":"é"}'
    for depth in list(range(1, 65)) + DEEP:
        for o, c in (('[', ']'), ('{"a":', '}')):
            nest = o * depth + '1' + c * depth
            yield nest
            yield o * depth                       # unterminated
            yield '{"jsonrpc":"2.0","method":"ok","params":[%s],"id":1}' % nest
            yield '{"jsonrpc":"2.0","method":"ok","params":{"a":%s},"id":1}' % nest
            yield '[{"jsonrpc":"2.0","method":"nop","params":[%s]}]' % nest
            yield '{"jsonrpc":"2.0","method":"echo","params":[%s],"id":1}' % nest
            yield '[{"jsonrpc":"2.0","method":"echo","params":{"a":%s},"id":1},{"jsonrpc":"2.0","method":"echo","id":2}]' % nest
    # batches in which SEVERAL ids are repeated, of one type and of different types
    for ids in ([1, 'a', 1, 'a'], [1, '1', 1, '1'], [0, '', 0, ''], [2, 1, 2, 1], ['b', 'a', 'b', 'a'], [1, 'a', 'a', 1, None, None], [1, 1, 1, 'x', 'x', 2 ** 70, 2 ** 70]):
        yield json.dumps([{'jsonrpc': '2.0', 'method': 'ok', 'id': i} for i in ids])
        yield json.dumps([{'jsonrpc': '2.0', 'method': 'ok', 'id': i} for i in ids] + [{'jsonrpc': '2.0', 'method': 'ok'}])
    base = '{"jsonrpc":"2.0","method":"ok","id":1}'
    for ws in [' ', '\t', '\n', '\r', '\r\n ', '﻿', '\x0b', '\x0c', '\xa0', ' ', '\x00']:
        yield ws + base
        yield base + ws
        yield base.replace(':', ws + ':' + ws)
        yield ws
    yield ''
    yield base + base
    yield base + ','
    yield '[' + base + ',]'
    yield '{"jsonrpc":"2.0","method":"ok","id":1,}'
    yield "{'jsonrpc':'2.0','method':'ok','id':1}"
    yield '{"jsonrpc":"2.0","jsonrpc":"1.0","method":"ok","id":1}'
    yield '{"jsonrpc":"2.0","method":"ok","id":1,"id":2}'
    yield '{"jsonrpc":"2.0","method":"ok","method":"nope","id":1}'
    yield '/* c */' + base
    yield base + '// c'


def g3(ctx):
    for disp in DISPS:
        for mbs in (None, 1):
            for t in g3_texts(ctx):
                yield dict(g='G3', disp=disp, mbs=mbs, text=t)


def g4_texts(ctx):
    """long client text made of multi-byte characters (2, 3 and 4 bytes in UTF-8), shifted by 0..3 ASCII characters, at every position"""
    for ch in ('é', '€', '\U0001F600'):
        for off in range(4):
            for n in (130, 520, 1100):
                lit = '"' + 'a' * off + ch * n + '"'
                yield from positions(lit, echo=True)
                yield '{"jsonrpc":"2.0","method":"ok","params":{%s:1},"id":1}' % lit
                yield '[{"jsonrpc":"2.0","method":"ok","id":%s},{"jsonrpc":"2.0","method":"ok","id":%s}]' % (lit, lit)
                yield '[%s]' % ','.join(['{"jsonrpc":"2.0","method":"ok","id":"%s"}' % (ch * 7)] * 40)


def g4(ctx):
    for disp in DISPS:
        for t in g4_texts(ctx):
            yield dict(g='G4', disp=disp, mbs=None, text=t)


def g5(ctx):
    """the application logs: the pjrpc loggers are enabled for DEBUG while the documents of G2 (single objects, arrays of <= 2) are served"""
    for disp in ('sync', 'async', 'sync-mw', 'async-conc2'):
        for j, i, m, p in itertools.product(['2.0', '1.0', '__absent__'], ['__absent__', None, 1, 'a', 1.5], METHODS, PARAMS):
            yield dict(g='G5', disp=disp, mbs=None, log=True, text=json.dumps(obj(j, i, m, p, False)))
        for n in range(0, 3):
            for mbs in (None, 1):
                for elems in itertools.product(range(len(ARRAY_ALPHABET)), repeat=n):
                    yield dict(g='G5', disp=disp, mbs=mbs, log=True, text=json.dumps([ARRAY_ALPHABET[e] for e in elems]))
        for t in ('', '{', '[1', 'nul', '[]', '1', '"x"'):
            yield dict(g='G5', disp=disp, mbs=None, log=True, text=t)


def gen_cases(ctx):
    yield from g3(ctx)
    yield from g4(ctx)
    yield from g5(ctx)
    yield from g2(ctx)
    yield from g1(ctx)


_SYS = {}


def system(disp, mbs):
    k = (disp, mbs)
    if k not in _SYS:
        _SYS[k] = s = Sys(disp, TABLE, max_batch_size=mbs)
        register_internal_failures(s.d)
    return _SYS[k]


def register_internal_failures(d):
    """methods whose handling fails BEFORE the method body runs (the -32603 path): a view whose constructor raises, a
    validator that raises something other than ValidationError, a callable whose signature cannot be inspected"""
    import functools

    import pjrpc.server
    from pjrpc.server import Method
    from pjrpc.server.validators import BaseValidator

    class BrokenView(pjrpc.server.ViewMixin):
        def __init__(self, context=None):
            raise RuntimeError('S3CR3T view constructor')

        def vboom(self):
            return 1

    class BrokenValidator(BaseValidator):
        def validate_method(self, method, params, exclude=(), **kwargs):
            raise KeyError('S3CR3T validator')

    @BrokenValidator().validate
    def valboom():
        return 1

    d.registry.view(BrokenView)
    d.add(valboom, name='valboom')
    d.add_methods(Method(functools.partial(max), name='pmax'))


def check_text(case, rec):
    s = system(case['disp'], case['mbs'])
    kind, val = s.dispatch(case['text'])
    s.take_log()
    rec.transitions += 1
    if kind == 'raise':
        rec.outcomes['raised'] += 1
        rec.violation('C01:raised:%s:%s' % (type(val).__name__, norm(str(val))[:60]), case, expected='no exception',
                      observed='%s: %s' % (type(val).__name__, str(val)[:200]))
        return ('raise', type(val).__name__)
    if val is None:
        rec.outcomes['nothing'] += 1
        rec.nontrivial_n += 1
        return ('none',)
    if not (isinstance(val, tuple) and len(val) == 2 and isinstance(val[0], str) and isinstance(val[1], tuple)):
        rec.violation('C01:shape of return value', case, expected='None or (text, codes)', observed=repr(val)[:200])
        return ('badret',)
    text, codes = val
    try:
        text.encode('utf-8')
    except UnicodeEncodeError as e:
        # a response text is sent as UTF-8 (RFC 8259): raw unpaired surrogates cannot be
        rec.violation('C01:response text cannot be encoded as UTF-8', case, expected='encodable text', observed='%s in %r' % (e.reason, text[max(0, e.start - 30):e.start + 10]))
        return ('unencodable',)
    ok, tree = jsonstrict.parse(text)
    if not ok:
        rec.outcomes['not-json'] += 1
        rec.violation('C01:response text is not JSON', case, expected='RFC 8259 text',
                      observed=text[:300], detail=tree)
        return ('notjson', text[:200])
    p = wire.response_document_problem(tree)
    if p:
        rec.outcomes['not-a-response-document'] += 1
        rec.violation('C01:not a response document:%s' % norm(p), case, expected='response object or non-empty array',
                      observed=text[:300], detail=p)
        return ('notdoc', text[:200])
    want = wire.codes_of(tree)
    if tuple(codes) != want or not all(isinstance(c, int) and not isinstance(c, bool) for c in codes):
        rec.violation('C01:codes disagree with the document', case, expected=want, observed=codes)
    cls = ('batch' if isinstance(tree, list) else 'single') + str(sorted(set(want)))
    rec.outcomes[cls] += 1
    if want != (-32700,):
        rec.nontrivial_n += 1
    return (text[:300], codes)


def run_case(case, rec):
    if case.get('log'):
        from mc.harness.clientrun import debug_logging
        with debug_logging(True):
            r = check_text(case, rec)
    else:
        r = check_text(case, rec)
    rec.states += 1
    rec.traces += 1
    rec.counters[case['g']] += 1
    return r


def run(ctx):
    ctx.rule = ('E1 x dispatcher flavours sync / async / async sequential-batch / async with plain functions returning coroutines (G2, G3): G1 = every string of <= %d (sync) / %d (async) tokens over %r; G2 = product of member alphabets '
                'for single objects (jsonrpc x id x method x params x extra member), all scalars, all arrays of length '
                '<= %d over a 19-element alphabet (incl. repeated and falsy ids) x max_batch_size {None,0,1,2,n}; G3 = lexical edges (integer literals '
                'of %r digits, non-finite / extreme floats, every escape / control / surrogate / astral character, '
                'nesting 1..64 and 19 depths from 100 to 100000 around the interpreter limits, whitespace / BOM / duplicate members) at 14 positions; G4 = strings of 130 / 520 / 1100 two-, three- and '
                'four-byte characters behind 0..3 ASCII characters at every position; G5 = single objects and arrays of <= 2 served while the pjrpc loggers are enabled for DEBUG. state = one (dispatcher, '
                'max_batch_size, text) point, distinct by construction; non-trivial = answered with anything other '
                'than the plain parse error'
                % (ctx.pick(5, 6), ctx.pick(4, 5), TOKENS, ctx.pick(3, 4), DIGITS))
    ctx.assumptions += ['methods return JSON-encodable values (they never echo arguments in this check)',
                        'nesting depths other than 1..64 and the 19 listed ones, and token strings beyond the bound, are not covered']
    ctx.bounds.update(tokens=len(TOKENS), token_len_sync=ctx.pick(5, 6), token_len_async=ctx.pick(4, 5),
                      array_len=ctx.pick(3, 4), nesting=[64] + DEEP, digits=DIGITS)
    ctx.run_cases('C01', lambda: gen_cases(ctx), run_case, recheck_every=1009)
    oc = ctx.rec.outcomes
    ctx.guard('parse errors, invalid requests, successes, batches and silence all observed',
              all(any(k.startswith(p) for k in oc) for p in ('single[-32700]', 'single[-32600]', 'single[0]', 'batch', 'nothing')))


def replay(doc):
    from mc.core import Recorder, jdump
    rec = Recorder()
    r = run_case(doc['case'], rec)
    print('observation:', repr(r)[:600])
    for v in rec.violations:
        print('VIOLATION-REPLAY signature=%s\n  expected=%s\n  observed=%s' % (
            v['signature'], jdump(v['expected'])[:500], jdump(v['observed'])[:500]))
    print('replayed: %d violation(s)' % len(rec.violations))
    return 1 if rec.violations else 0
