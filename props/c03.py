"""
C03 - failures map to the JSON-RPC 2.0 error codes; application errors pass verbatim; nothing about
other exceptions leaks.  Mode E1: (i) texts of C01 (token strings, lexical edges, value-shaped documents)
judged by S1 + the reference server S3; (ii) the failure table (protocol errors x exceptions) as a call,
as a notification and at each position of a 3-element batch, sync / async / plain function under async.
"""
import itertools
import json

from mc import jsonstrict
from mc.harness import methods
from mc.harness.server import Sys
from mc.refmodel import server as ref
from mc.refmodel.server import ABSENT, NOTHING, REQ

from . import c01
from .common_server import norm, obs_key, observe, outcome_class

CODES = [0, 1, -1, -32700, -32600, -32601, -32602, -32603, -32000, -32099, 2 ** 63, 10 ** 30]
MESSAGES = ['m', '', 'é☃']
DATA = [ABSENT, None, 0, '', [], {}, [1, {'a': None}], 'text', 1.5, True, False]
EXCS = ['ValueError', 'KeyError', 'TypeError', 'AssertionError', 'RuntimeError', 'MarkerLookup', 'MarkerBoom',
        'ZeroDivisionError', 'Exception', 'AttributeError', 'StopIteration', 'OSError', 'NotImplementedError',
        'DeserializationError', 'IdentityError', 'BaseError', 'ValidationError', 'RecursionError', 'BadRepr', 'HugeInt', 'CallMismatch', 'KwMismatch']
STD = {-32700: 'ParseError', -32600: 'InvalidRequestError', -32601: 'MethodNotFoundError',
       -32602: 'InvalidParamsError', -32603: 'InternalError', -32000: 'ServerError'}


def behaviours():
    for code, msg, data in itertools.product(CODES, MESSAGES, DATA):
        yield dict(kind='perr', params=[('a', 0)], code=code, message=msg, data=data, cls='base')
    for code, msg, data in itertools.product([7001, -7002], MESSAGES, DATA):
        yield dict(kind='perr', params=[('a', 0)], code=code, message=msg, data=data, cls='registered')
    for code in STD:
        for data in DATA:
            yield dict(kind='perr', params=[('a', 0)], code=code, message='std', data=data, cls='std')
    # an application error class with a constructor of its own (keyword-only / differently named arguments)
    for data in DATA:
        if not (isinstance(data, str) and data == ABSENT):
            yield dict(kind='perr', params=[('a', 0)], code=7003, message='custom constructor', data=data, cls='custom-ctor')
    for e in EXCS:
        yield dict(kind='boom', params=[('a', 0)], exc=e)


def std_make_error(beh):
    import pjrpc.common.exceptions as exc
    cls = getattr(exc, STD[beh['code']])
    kw = {} if (isinstance(beh['data'], str) and beh['data'] == ABSENT) else dict(data=beh['data'])
    return cls(message=beh['message'], **kw)


_orig_make_error = methods.make_error


_CUSTOM = []


def custom_ctor_error(detail):
    import pjrpc.common.exceptions as exc
    if not _CUSTOM:
        class AccountError(exc.JsonRpcError):
            # (not registered for its code - no class level `code` - so that reading the response back builds the base class)
            def __init__(self, *, detail):
                super().__init__(7003, 'custom constructor', detail)
        _CUSTOM.append(AccountError)
    return _CUSTOM[0](detail=detail)


def _make_error(beh):
    if beh.get('cls') == 'std':
        return std_make_error(beh)
    if beh.get('cls') == 'custom-ctor':
        return custom_ctor_error(beh['data'])
    return _orig_make_error(beh)


methods.make_error = _make_error

PLACES = ['call', 'notif', 'b0', 'b1', 'b2', 'b-notif']


def gen_failures(ctx):
    for beh in behaviours():
        for place in PLACES:
            for disp in ('sync', 'async', 'async-plain', 'async-wrapped', 'async-seq', 'sync-mw', 'async-mw'):
                yield dict(part='fail', disp=disp, beh=beh, place=place)
                if beh['kind'] == 'boom' and disp in ('sync', 'async', 'sync-mw'):
                    # the application runs with DEBUG logging on: the exception is logged, the response says no more than before
                    yield dict(part='fail', disp=disp, beh=beh, place=place, log=True)


def gen_texts(ctx):
    # (i) the C01 corpora, each judged by S1/S3
    for case in c01.g3(ctx):
        if case['mbs'] is None:
            yield dict(part='text', **case)
    for case in c01.g2(ctx):
        if case['g'] != 'G2a' or (case['mbs'] is None and case['text'].count('"jsonrpc"') <= ctx.pick(2, 3)):
            yield dict(part='text', **case)
    for disp in ('sync', 'async'):
        for n in range(0, (ctx.pick(5, 6) if disp == 'sync' else ctx.pick(4, 5)) + 1):
            for toks in itertools.product(c01.TOKENS, repeat=n):
                yield dict(part='text', g='G1', disp=disp, mbs=None, text=''.join(toks))


def gen_cases(ctx):
    yield from gen_failures(ctx)
    yield from gen_texts(ctx)


def fail_doc(place):
    me = {'jsonrpc': '2.0', 'method': 'f', 'params': [3]}
    other = lambda i: {'jsonrpc': '2.0', 'method': 'ok', 'params': [i], 'id': 'o%d' % i}   # noqa
    if place == 'call':
        return dict(me, id=9)
    if place == 'notif':
        return me
    if place == 'b-notif':
        return [other(1), me, other(2)]
    pos = int(place[1])
    doc = [other(1), other(2)]
    doc.insert(pos, dict(me, id=9))
    return doc


def run_failure(case, rec):
    beh = dict(case['beh'])
    table = dict(f=beh, ok=methods.STD_TABLE['ok'])
    disp = case['disp']
    s = Sys({'async-plain': 'async', 'async-wrapped': 'async-wrapped', 'async-seq': 'async-seq'}.get(disp, disp), table,
            coroutine_methods={'async': True, 'async-plain': False, 'async-seq': True}.get(disp))
    doc = fail_doc(case['place'])
    text = json.dumps(doc)
    o = observe(s, text)
    rec.transitions += 1
    rec.outcomes[outcome_class(o)] += 1
    kind = beh['kind']
    tag = 'perr' if kind == 'perr' else 'exc'
    if o['raised'] or o['problem']:
        rec.violation('C03:%s:dispatch %s' % (tag, 'raised' if o['raised'] else 'malformed'), case,
                      expected='response', observed=o['raised'] or o['problem'])
        return obs_key(o)
    alts = ref.expected(doc, table)
    problems = ref.match_any(o['answer'], o['calls'], alts)
    if problems is not None:
        what = ''
        if kind == 'perr':
            what = 'code=%s message=%s data=%s' % (
                'zero' if beh['code'] == 0 else 'nonzero', 'empty' if beh['message'] == '' else 'nonempty',
                'absent' if beh['data'] == ABSENT and isinstance(beh['data'], str) else
                ('falsy' if not beh['data'] else 'truthy'))
        rec.violation('C03:%s:%s:%s' % (tag, what, norm(problems[-1])), case, expected=[a for a, _ in alts],
                      observed=dict(answer=o['answer'], calls=o['calls']), detail=problems[-1])
    if kind == 'perr' and o['text'] and problems is None and case['place'] == 'call':
        # "reaches the caller": the response text read back by the library's own client-side classes carries the same error
        import pjrpc
        from pjrpc.common import UNSET
        try:
            resp = pjrpc.Response.from_json(json.loads(o['text']))
            e = resp.error
            data_ok = (e.data is UNSET) if (beh['data'] == ABSENT and isinstance(beh['data'], str)) else (e.data is not UNSET and ref.typed_eq(e.data, beh['data']))
            if not (resp.is_error and ref.typed_eq(e.code, beh['code']) and e.message == beh['message'] and data_ok):
                rec.violation('C03:perr:the error the caller reads back differs from the one the method raised', case,
                              expected=(beh['code'], beh['message'], beh['data']), observed=(e.code, e.message, repr(e.data)))
        except Exception as ex:   # noqa
            rec.violation('C03:perr:the error response cannot be read back by the client-side classes', case,
                          expected=(beh['code'], beh['message']), observed='%s: %s' % (type(ex).__name__, ex))
    if kind == 'boom' and o['text']:
        for marker in (methods.MARK, beh['exc'], 'Traceback'):
            if marker in o['text']:
                rec.violation('C03:exc:exception detail leaked into the response', case,
                              expected='no occurrence of %r' % marker, observed=o['text'][:300])
    rec.nontrivial_n += 1
    return obs_key(o)


def run_text(case, rec):
    text = case['text']
    s = c01.system(case['disp'], None)
    o = observe(s, text)
    rec.transitions += 1
    rec.outcomes[outcome_class(o)] += 1
    if o['raised'] or o['problem']:
        rec.violation('C03:text:dispatch %s' % ('raised' if o['raised'] else 'malformed'), case,
                      expected='response', observed=o['raised'] or o['problem'])
        return obs_key(o)
    ok, tree = jsonstrict.parse(text)
    if not ok:
        exp = dict(id=None, code=-32700, exact=None)
        p = ref.match_answer(o['answer'], exp)
        if p is None and o['calls']:
            p = 'method executed for a text that is not JSON'
        if p:
            try:
                json.loads(text)
                sig = 'C03:text:not RFC 8259 JSON but accepted by the stock json.loads (NaN / Infinity constants)'
            except ValueError:
                sig = 'C03:text:non-JSON text not answered with -32700:%s' % norm(p)
            rec.violation(sig, case, expected=exp, observed=dict(answer=o['answer'], calls=o['calls']), detail=p)
        rec.counters['not-json'] += 1
        return obs_key(o)
    rec.counters['json'] += 1
    big = jsonstrict.max_int_digits(tree) > 4300
    if big:
        # L5: valid JSON the interpreter cannot convert: -32700 / -32600 with id null accepted
        ok1 = any(ref.match_answer(o['answer'], dict(id=None, code=c, exact=None)) is None for c in (-32700, -32600))
        if not ok1 or o['calls']:
            rec.violation('C03:text:oversized integer literal', case, expected='-32700 or -32600 with id null',
                          observed=dict(answer=o['answer'], calls=o['calls']))
        return obs_key(o)
    doc = jsonstrict.to_python(tree)
    alts = ref.expected(doc, c01.REF_TABLE)
    if jsonstrict.depth(tree) > 500:
        # L5: valid JSON nested deeper than the interpreter may be able to parse: -32700 / -32600 with id null (nothing executed)
        # are accepted besides the value-level answer
        alts = alts + [(dict(id=None, code=c, exact=None), []) for c in (-32700, -32600)]
    problems = ref.match_any(o['answer'], o['calls'], alts)
    if problems is not None:
        rec.violation('C03:text:ref:%s' % norm(problems[-1]), case, expected=[a for a, _ in alts],
                      observed=dict(answer=o['answer'], calls=o['calls']), detail=problems[-1])
    if o['codes'] and set(o['codes']) - {-32700}:
        rec.nontrivial_n += 1
    return obs_key(o)


def run_case(case, rec):
    if case.get('log'):
        from mc.harness.clientrun import debug_logging
        with debug_logging(True):
            r = run_failure(case, rec)
    else:
        r = run_failure(case, rec) if case['part'] == 'fail' else run_text(case, rec)
    rec.states += 1
    rec.traces += 1
    rec.counters[case['part']] += 1
    return r


def run(ctx):
    ctx.rule = ('E1: failure table = protocol errors (codes %r x messages %r x data %r; base class, registered subclass, '
                'standard classes) and %d exception types, each as call / notification / at each position of a '
                '3-element batch / as notification inside a batch, sync, async(coroutine), async(plain function); '
                'texts = C01 corpora (token strings <= %d, lexical edges, value-shaped objects, arrays) judged by the '
                'strict JSON recogniser and the reference server. state = one (dispatcher, behaviour, placement) or '
                '(dispatcher, text) point; non-trivial = anything but the plain parse error'
                % (CODES, MESSAGES, DATA, len(EXCS), ctx.pick(5, 6)))
    ctx.assumptions += ['L4: message/data of library-generated errors unconstrained; L5 oversized integer literals',
                        'error classes registered by the harness use private codes (7001, -7002)']
    ctx.run_cases('C03', lambda: gen_cases(ctx), run_case, recheck_every=1013)
    oc = ctx.rec.outcomes
    ctx.guard('all standard codes observed', all(any(('[%d]' % c) in k or (', %d' % c) in k or ('[%d,' % c) in k
                                                     for k in oc) for c in (-32700, -32600, -32601, -32602, -32000)),
              sorted(oc))
    ctx.guard('json and non-json texts', ctx.rec.counters['json'] > 1000 and ctx.rec.counters['not-json'] > 1000)


def replay(doc):
    from mc.core import Recorder, jdump
    rec = Recorder()
    r = run_case(doc['case'], rec)
    print('observation:', repr(r)[:600])
    for v in rec.violations:
        print('VIOLATION-REPLAY signature=%s\n  expected=%s\n  observed=%s' % (
            v['signature'], jdump(v['expected'])[:500], jdump(v['observed'])[:500]))
    print('replayed: %d violation(s)' % len(rec.violations))
    return 1 if rec.violations else 0
