"""
C13 - requests are independent: nothing leaks from one dispatch into the next.
 (a) history independence: every history (no state merging) over a 16-request alphabet followed by every probe on ONE
     dispatcher; the probe's answer and executions must equal the probe on a fresh dispatcher.
 (b) no retention: after N dispatches with a fresh context each and gc.collect(), the contexts, the view instances and
     what the methods created are dead, and the validator caches / live object count do not grow with N.
 (c) concurrent service (E5): 2 and 3 threads dispatching on a shared Dispatcher under every schedule with a bounded
     number of preemptions (thread switch possible at every source line of pjrpc); each thread's answer and what its
     method saw equal the solo run.
"""
import gc
import itertools
import json
import os
import weakref

import pjrpc
import pjrpc.server
from pjrpc.server import validators
from pjrpc.server.validators import jsonschema as vjs
from pjrpc.server.validators import pydantic as vpd

from mc.core import HarnessError, explore_choices
from mc.harness import methods
from mc.harness.server import Sys
from mc.refmodel.server import typed_eq
from mc.threadsched import run_threads
from mc.vloop import VLoop

from .common_server import obs_key, observe

PJRPC_DIR = os.path.dirname(os.path.abspath(pjrpc.__file__)) + os.sep


class Ctx:
    """per-request context object"""

    def __init__(self, tag):
        self.tag = tag


class Token:
    def __init__(self, tag):
        self.tag = tag


def build(kind, log, refs=None, coroutine=None):
    """a dispatcher with functions, a class based view and validated methods"""
    is_async = kind == 'async'
    if coroutine is None:
        coroutine = is_async
    # a generic (identity) error handler and a handler registered for -32000 that rewrites the error: lists owned by the "user"
    from pjrpc.common.exceptions import JsonRpcError as _E
    if is_async:
        async def h_generic(request, context, error):
            return error

        async def h_server(request, context, error):
            return _E(9100, 'tagged')
    else:
        def h_generic(request, context, error):
            return error

        def h_server(request, context, error):
            return _E(9100, 'tagged')
    # two middlewares: a pass-through one and one that tags successful results (a request that slips past it is visible)
    from pjrpc.common import Response as _R, UnsetType as _U
    if is_async:
        async def mw_pass(request, context, handler):
            return await handler(request, context)

        async def mw_tag(request, context, handler):
            r = await handler(request, context)
            return r if (isinstance(r, _U) or r.is_error) else _R(id=r.id, result={'tagged': r.result})
    else:
        def mw_pass(request, context, handler):
            return handler(request, context)

        def mw_tag(request, context, handler):
            r = handler(request, context)
            return r if (isinstance(r, _U) or r.is_error) else _R(id=r.id, result={'tagged': r.result})
    import json as _json

    class BudgetDecoder(_json.JSONDecoder):
        """a decoder that keeps per-document state on itself (a budget of 40 objects per document, counted from construction):
        the dispatcher is given the CLASS, every document is decoded by an instance of its own"""
        def __init__(self, *a, **kw):
            self.objects = 0
            kw['object_hook'] = self._count
            super().__init__(*a, **kw)

        def _count(self, obj):
            self.objects += 1
            if self.objects > 40:
                raise ValueError('document too complex')
            return obj
    import decimal as _decimal
    import pjrpc.server as _ps

    class MoneyEncoder(_ps.JSONEncoder):
        """the application's encoder: knows one more type than the library's"""
        def default(self, o):
            if isinstance(o, _decimal.Decimal):
                return 'D:%s' % o
            return super().default(o)
    s = Sys(kind, methods.STD_TABLE, coroutine_methods=coroutine, error_handlers={None: [h_generic], -32000: [h_server]},
            middlewares=[mw_pass, mw_tag], json_decoder=BudgetDecoder, json_encoder=MoneyEncoder)
    d = s.d
    log = s.log

    def price():
        log.append(('price', {}))
        return _decimal.Decimal('1.50')       # needs the configured encoder

    def unenc():
        log.append(('unenc', {}))
        return {'handle': object()}           # a value no encoder knows: serialising the response fails
    if coroutine:
        def _co(f):
            async def w():
                return f()
            return w
        price, unenc = _co(price), _co(unenc)
    d.add(price, name='price')
    d.add(unenc, name='unenc')
    js = vjs.JsonSchemaValidator()
    pd = vpd.PydanticValidator()

    class View(pjrpc.server.ViewMixin):
        def __init__(self, context):
            super().__init__()
            self.context = context
            if refs is not None:
                refs.append(weakref.ref(self))

        def alive(self):
            log.append(('alive', dict(ctx=getattr(self.context, 'tag', None))))
            return True

        def vpd(self, a: int):
            log.append(('vpd', dict(a=a, ctx=getattr(self.context, 'tag', None))))
            return a

        def vjs(self, a):
            log.append(('vjs', dict(a=a, ctx=getattr(self.context, 'tag', None))))
            return a

        def vget(self, a, b=2):
            log.append(('vget', dict(a=a, b=b, ctx=getattr(self.context, 'tag', None))))
            t = Token(a)
            if refs is not None:
                refs.append(weakref.ref(t))
            return {'a': a, 'b': b, 'ctx': getattr(self.context, 'tag', None)}

    class Basket(pjrpc.server.ViewMixin):
        """a view registered WITHOUT a context whose constructor prepares per-request state"""
        def __init__(self, context=None):
            super().__init__()
            self.items = []
            if refs is not None:
                refs.append(weakref.ref(self))

        def push(self, x):
            self.items.append(x)
            log.append(('push', dict(items=list(self.items))))
            return list(self.items)

    # validated view methods (the validators see the per-request bound method)
    pd.validate(View.vpd)
    js.validate(schema={'type': 'object', 'properties': {'a': {'type': 'integer'}}})(View.vjs)

    # two methods sharing ONE validator object but configured with different validator arguments
    import jsonschema as _jsonschema
    fmt_schema = {'type': 'object', 'properties': {'h': {'type': 'string', 'format': 'ipv4'}}, 'required': ['h']}

    @js.validate(schema=fmt_schema, format_checker=_jsonschema.FormatChecker())
    def jsfmt_strict(h):
        log.append(('jsfmt_strict', dict(h=h)))
        return h

    @js.validate(schema=dict(fmt_schema))
    def jsfmt_lenient(h):
        log.append(('jsfmt_lenient', dict(h=h)))
        return h

    @pd.validate
    def pdv2(a: str, b: float = 1.5):
        log.append(('pdv2', dict(a=a, b=b)))
        return [a, b]

    # parameterless methods and context-only methods whose signatures coincide once the context is removed
    def ping():
        log.append(('ping', {}))
        return 'pong'

    def whoami(ctx):
        log.append(('whoami', dict(ctx=getattr(ctx, 'tag', None))))
        return getattr(ctx, 'tag', None)

    def limits(limit=10):
        log.append(('limits', dict(limit=limit)))
        return limit

    def page(ctx, limit=10):
        log.append(('page', dict(limit=limit, ctx=getattr(ctx, 'tag', None))))
        return [getattr(ctx, 'tag', None), limit]

    def withctx(ctx, a=1):
        log.append(('withctx', dict(a=a, ctx=getattr(ctx, 'tag', None))))
        t = Token(a)
        if refs is not None:
            refs.append(weakref.ref(t))
        return {'a': a, 'ctx': getattr(ctx, 'tag', None)}

    @js.validate(schema={'type': 'object', 'properties': {'a': {'type': 'integer', 'minimum': 0}}, 'required': ['a']})
    def jsv(a, ctx=None):
        log.append(('jsv', dict(a=a)))
        return a

    @pd.validate
    def pdv(a: int, ctx=None):
        log.append(('pdv', dict(a=a)))
        return a

    if coroutine:
        def co(f):
            async def w(*a, **kw):
                return f(*a, **kw)
            w.__name__ = f.__name__
            w.__signature__ = __import__('inspect').signature(f)
            if hasattr(f, '__pjrpc_meta__'):
                w.__pjrpc_meta__ = dict(f.__pjrpc_meta__)
            return w
        withctx, jsv, pdv = co(withctx), co(jsv), co(pdv)
        jsfmt_strict, jsfmt_lenient, pdv2 = co(jsfmt_strict), co(jsfmt_lenient), co(pdv2)
        ping, whoami, limits, page = co(ping), co(whoami), co(limits), co(page)
    d.registry.view(View, context='context')
    d.registry.view(Basket)
    d.add(withctx, name='withctx', context='ctx')
    d.add(jsv, name='jsv', context='ctx')
    d.add(pdv, name='pdv', context='ctx')
    d.add(jsfmt_strict, name='jsfmt_strict')
    d.add(jsfmt_lenient, name='jsfmt_lenient')
    d.add(pdv2, name='pdv2')
    d.add(ping, name='ping')
    d.add(whoami, name='whoami', context='ctx')
    d.add(limits, name='limits')
    d.add(page, name='page', context='ctx')
    return s


def call(method, params=None, id=1):
    o = {'jsonrpc': '2.0', 'method': method}
    if params is not None:
        o['params'] = params
    if id is not None:
        o['id'] = id
    return json.dumps(o)


ALPHABET = [
    ('ok', call('ok', [1])), ('nobind', call('add', [1])), ('unknown', call('nope')), ('perr', call('perr')),
    ('boom', call('boom', [5])), ('notif', call('ok', [2], id=None)),
    ('batch', '[%s,%s,%s]' % (call('ok', [3], id=7), call('ok', [4], id=None), call('boom', id=8))),
    ('view', call('vget', [1])), ('viewfail', call('vget', {'zz': 1})), ('ctx', call('withctx', {'a': 5})),
    ('ctxinject', call('withctx', {'ctx': 'evil'})),
    ('jsok', call('jsv', [3])), ('jsfail', call('jsv', [-1])), ('pdok', call('pdv', {'a': 3})), ('pdfail', call('pdv', ['x'])),
    ('vpd', call('vpd', [1])), ('vpdfail', call('vpd', ['x'])), ('vjs', call('vjs', [1])), ('vjsfail', call('vjs', ['x'])),
    ('fmt-strict-bad', call('jsfmt_strict', ['not-an-ip'])), ('fmt-strict-ok', call('jsfmt_strict', ['1.2.3.4'])),
    ('fmt-lenient', call('jsfmt_lenient', ['not-an-ip'])), ('pdv2', call('pdv2', ['s'])), ('pdv2fail', call('pdv2', {'a': 's', 'b': 'x'})),
    ('push', call('push', [1])), ('ping', call('ping')), ('whoami', call('whoami')), ('limits', call('limits')), ('page', call('page')), ('alive', call('alive')),
    ('price', call('price')), ('unenc', call('unenc')),
    ('parse', '{"jsonrpc": "2.0", '), ('invalid', '{"jsonrpc":"2.0","id":1}'), ('boomt', call('boomt')),
]
TEXT = dict(ALPHABET)


# ---- (a) -------------------------------------------------------------------------------------------------------
_FRESH = {}


def fresh_answer(kind, name):
    k = (kind, name)
    if k not in _FRESH:
        s = build(kind, None)
        o = observe(s, TEXT[name], context=Ctx('probe'))
        _FRESH[k] = obs_key(o)
    return _FRESH[k]


def run_history(case, rec):
    kind, hist = case['kind'], case['history']
    s = build(kind, None)
    for h in hist:
        observe(s, TEXT[h], context=Ctx('h'))
        rec.transitions += 1
    bad = []
    for name, text in ALPHABET:
        o = observe(s, text, context=Ctx('probe'))
        rec.transitions += 1
        if obs_key(o) != fresh_answer(kind, name):
            bad.append(name)
            rec.violation('C13:a:answer depends on the requests served before (%s after %s)' % (name, hist[-1] if hist else '-'),
                          dict(case, probe=name), expected=fresh_answer(kind, name), observed=obs_key(o))
    rec.traces += 1
    rec.states += 1
    if hist:
        rec.nontrivial_n += 1
    return tuple(bad)


# ---- (b) -------------------------------------------------------------------------------------------------------
def cache_sizes():
    out = {}
    for name, fn in (('BaseValidator.signature', getattr(validators.base.BaseValidator, 'signature', None)),
                     ('BaseValidator._signature', getattr(validators.base.BaseValidator, '_signature', None)),
                     ('PydanticValidator.build_validation_schema', getattr(vpd.PydanticValidator, 'build_validation_schema', None))):
        ci = getattr(fn, 'cache_info', None)
        if ci is not None:
            out[name] = ci().currsize
    return out


def run_retention(case, rec):
    kind, req = case['kind'], case['request']
    refs = []
    s = build(kind, None, refs=refs)
    text = TEXT.get(req)
    measures = {}
    ctx_refs = []
    done = 0
    for N in (1, 10, 110, 1110):
        while done < N:
            c = Ctx(done)
            ctx_refs.append(weakref.ref(c))
            if req == 'VARYING-unknown':
                # every request differs from the previous ones: another unknown method name, another id, another argument
                text = call('no_such_method_%d' % done, [done], id='id-%d' % done)
            elif req == 'VARYING-notif':
                text = call('no_such_method_%d' % done, {'k%d' % done: done}, id=None)
            elif req == 'VARYING-extension':
                # a valid call carrying an extension member (ignored by the library), another id every time
                text = '{"jsonrpc": "2.0", "method": "ok", "params": [%d], "id": "id-%d", "meta": {"trace": "t%d"}}' % (done, done, done)
            o = observe(s, text, context=c)
            del c, o
            done += 1
            rec.transitions += 1
        gc.collect()
        alive_ctx = sum(1 for r in ctx_refs if r() is not None)
        alive_obj = sum(1 for r in refs if r() is not None)
        # the harness' own weak references are gc-tracked objects: not counted
        measures[N] = dict(ctx=alive_ctx, objs=alive_obj, caches=cache_sizes(), gc=len(gc.get_objects()) - len(ctx_refs) - len(refs))
    # allocated memory (objects the garbage collector does not track - strings, tuples of strings - included): a further 1000 requests,
    # nothing kept by the harness, measured with tracemalloc after a warm-up
    import tracemalloc

    def vary(k):
        if req == 'VARYING-unknown':
            return call('no_such_method_%d' % k, [k], id='id-%d' % k)
        if req == 'VARYING-notif':
            return call('no_such_method_%d' % k, {'k%d' % k: k}, id=None)
        if req == 'VARYING-extension':
            return '{"jsonrpc": "2.0", "method": "ok", "params": [%d], "id": "id-%d", "meta": {"trace": "t%d"}}' % (k, k, k)
        return text
    tracemalloc.start()
    try:
        for k in range(done, done + 200):
            observe(s, vary(k), context=Ctx(k))
            del refs[:]          # (the harness' own bookkeeping must not count)
        gc.collect()
        m0 = tracemalloc.get_traced_memory()[0]
        for k in range(done + 200, done + 1200):
            observe(s, vary(k), context=Ctx(k))
            del refs[:]
        gc.collect()
        m1 = tracemalloc.get_traced_memory()[0]
        for k in range(done + 1200, done + 2200):
            observe(s, vary(k), context=Ctx(k))
            del refs[:]
        gc.collect()
        m2 = tracemalloc.get_traced_memory()[0]
    finally:
        tracemalloc.stop()
    # steady growth only (both windows of 1000 requests): bounded caches may still be filling during the first one
    if m1 - m0 <= 40000:
        m1 = m2
    rec.counters['retention runs growing by more than 20 kB / 1000 requests (tolerance 40 kB)'] += 1 if m2 - m1 > 20000 else 0
    if m2 - m1 > 40000:
        rec.violation('C13:b:allocated memory grows with the number of requests (%s)' % ('view' if req.startswith('view') else req), case,
                      expected='no steady growth over two windows of 1000 further requests (tolerance 40 kB each)', observed='%d bytes in the second window' % (m2 - m1))
    last = measures[1110]
    what = 'view' if req.startswith('view') else req
    if last['ctx']:
        rec.violation('C13:b:context objects retained after dispatch returned (%s)' % what, case,
                      expected='0 of %d contexts alive after gc' % done, observed={n: m['ctx'] for n, m in measures.items()})
    elif last['objs']:
        rec.violation('C13:b:per-request objects retained after dispatch returned (%s)' % what, case,
                      expected='0 alive', observed={n: m['objs'] for n, m in measures.items()})
    if measures[110]['caches'] != last['caches']:
        rec.violation('C13:b:validator cache grows with the number of requests (%s)' % what, case,
                      expected=measures[110]['caches'], observed=last['caches'])
    growth = last['gc'] - measures[110]['gc']
    if growth > 200:
        rec.violation('C13:b:live object count grows with the number of requests (%s)' % what, case,
                      expected='no growth between 110 and 1110 requests', observed={n: m['gc'] for n, m in measures.items()})
    rec.traces += 1
    rec.states += 1
    rec.nontrivial_n += 1
    rec.counters['retention runs'] += 1
    return (last['ctx'], last['objs'], growth > 200)


def run_http_retention(case, rec):
    """(b'') the same through a web-framework integration: the per-request context is the framework's request object; after the
    reply none of them may stay referenced by the library (whatever kind of request it was)"""
    from mc.harness.http import Integration
    kind, req = case['integration'], case['request']
    integ = Integration(kind, '/api', status_by_error=(lambda codes: 200 if not any(codes) else 207))
    refs = []

    def see(ctx):
        refs.append(weakref.ref(ctx))
    if kind == 'aiohttp':
        async def m(ctx, a=0):
            see(ctx)
            return a

        async def bad(ctx):
            see(ctx)
            raise ValueError('x')
    else:
        def m(ctx, a=0):
            see(ctx)
            return a

        def bad(ctx):
            see(ctx)
            raise ValueError('x')
    integ.dispatcher.add(m, name='m', context='ctx')
    integ.dispatcher.add(bad, name='bad', context='ctx')
    if req == 'varying-codes':
        # ever new application error codes (the tuple of codes of a reply is handed to the status function): allocated memory stays flat
        import tracemalloc
        from pjrpc.common.exceptions import JsonRpcError as _E
        if kind == 'aiohttp':
            async def failing(code):
                raise _E(code, 'application error')
        else:
            def failing(code):
                raise _E(code, 'application error')
        integ.dispatcher.add(failing, name='failing')

        def one(k):
            body = [{'jsonrpc': '2.0', 'method': 'failing', 'params': [100000 + k], 'id': 1}, {'jsonrpc': '2.0', 'method': 'failing', 'params': [200000 + 7 * k], 'id': 2}]
            r = integ.post(json.dumps(body if k % 2 else body[0]).encode(), 'application/json')
            return r.raised
        tracemalloc.start()
        try:
            for k in range(200):
                bad_ = one(k)
            gc.collect()
            m0 = tracemalloc.get_traced_memory()[0]
            for k in range(200, 1200):
                bad_ = one(k) or bad_
                rec.transitions += 1
            gc.collect()
            m1 = tracemalloc.get_traced_memory()[0]
            for k in range(1200, 2200):
                bad_ = one(k) or bad_
                rec.transitions += 1
            gc.collect()
            m2 = tracemalloc.get_traced_memory()[0]
        finally:
            tracemalloc.stop()
        # steady growth only: bounded caches of the frameworks may still be filling during the first window; a leak grows in both
        if m1 - m0 <= 40000:
            m1 = m2
        if bad_:
            rec.violation('C13:b:the %s integration raised while serving %s' % (kind, req), case, expected='a reply', observed=bad_)
        elif m2 - m1 > 40000:
            rec.violation('C13:b:memory allocated by the %s integration grows with the number of requests (ever new error codes)' % kind, case,
                          expected='no steady growth over two windows of 1000 further requests (tolerance 40 kB each)', observed='%d bytes in the second window' % (m2 - m1))
        rec.counters['http runs growing by more than 20 kB / 1000 requests (tolerance 40 kB)'] += 1 if m2 - m1 > 20000 else 0
        rec.traces += 1
        rec.states += 1
        rec.nontrivial_n += 1
        rec.counters['http retention runs'] += 1
        return m2 - m1 > 40000
    if req == 'cancelled':
        # the handler task is cancelled while the dispatch is suspended inside a method (client disconnect, timeout middleware)
        import asyncio

        async def slow(ctx):
            see(ctx)
            await asyncio.sleep(3600)
        integ.dispatcher.add(slow, name='slow', context='ctx')
        outcomes = set()
        for k in range(20):
            body = {'jsonrpc': '2.0', 'method': 'slow', 'id': k} if k % 2 == 0 else [{'jsonrpc': '2.0', 'method': 'slow', 'id': k}, {'jsonrpc': '2.0', 'method': 'm', 'id': 'b'}]
            outcomes.add(integ.post_then_cancel(json.dumps(body).encode(), 'application/json', steps=3 + k % 3))
            rec.transitions += 1
        integ.post(json.dumps({'jsonrpc': '2.0', 'method': 'm', 'params': [1], 'id': 1}).encode(), 'application/json')
        gc.collect()
        alive = sum(1 for r in refs if r() is not None)
        if outcomes != {'cancelled'} or len(refs) < 20:
            rec.nondet.append('http retention aiohttp/cancelled: the requests were not cancelled inside the method (%r, %d contexts seen)' % (sorted(outcomes), len(refs)))
            return 'unobserved'
        if alive:
            rec.violation('C13:b:request objects (contexts) retained by the aiohttp integration after cancelled requests', case,
                          expected='0 of %d alive' % len(refs), observed=alive)
        rec.traces += 1
        rec.states += 1
        rec.nontrivial_n += 1
        rec.counters['http retention runs'] += 1
        return alive
    bodies = {
        'call': {'jsonrpc': '2.0', 'method': 'm', 'params': [1], 'id': 1},
        'notif': {'jsonrpc': '2.0', 'method': 'm', 'params': [1]},
        'notif-batch': [{'jsonrpc': '2.0', 'method': 'm'}, {'jsonrpc': '2.0', 'method': 'bad'}],
        'fail': {'jsonrpc': '2.0', 'method': 'bad', 'id': 2},
        'mixed': [{'jsonrpc': '2.0', 'method': 'm', 'id': 1}, {'jsonrpc': '2.0', 'method': 'm'}],
    }
    seq = [req] * 30 if req != 'alternate' else ['call', 'notif', 'fail', 'notif-batch', 'mixed'] * 6
    for name in seq:
        r = integ.post(json.dumps(bodies[name]).encode(), 'application/json')
        rec.transitions += 1
        if r.raised:
            rec.violation('C13:b:the %s integration raised while serving %s' % (kind, name), case, expected='a reply', observed=r.raised)
            return 'raised'
        del r
    gc.collect()
    alive = sum(1 for r in refs if r() is not None)
    if not refs:
        # the methods never ran (every request was refused?): nothing to judge here; an ERROR unless a real violation is found elsewhere
        rec.nondet.append('http retention %s/%s: no context objects were observed' % (kind, req))
        return 'unobserved'
    if alive:
        rec.violation('C13:b:request objects (contexts) retained by the %s integration after the replies (%s)' % (kind, req), case,
                      expected='0 of %d alive' % len(refs), observed=alive)
    rec.traces += 1
    rec.states += 1
    rec.nontrivial_n += 1
    rec.counters['http retention runs'] += 1
    return alive


def run_churn(case, rec):
    """(a') short-lived dispatchers / re-registered implementations: handlers come and go (their memory is reused by the next
    ones) while the process-wide default validator lives on; every handler must be bound by ITS OWN signature"""
    kind = case['kind']
    is_async = kind == 'async'
    bad = 0
    for k in range(case['cycles']):
        n = 1 + (k * 7) % 4            # number of required parameters of this generation's handler
        names = ['p%d_%d' % (k % 3, i) for i in range(n)]
        ns = {}
        exec('%sdef handler(%s):\n    return [%s]\n' % ('async ' if is_async else '', ', '.join(names), ', '.join(names)), ns)
        d = pjrpc.server.AsyncDispatcher() if is_async else pjrpc.server.Dispatcher()
        if case['mode'] == 'replace' and k:
            d = case.setdefault('_d', d)
        d.add(ns['handler'], name='h')
        for params, ok in ((list(range(n)), True), ({nm: i for i, nm in enumerate(names)}, True), (list(range(n + 1)), False)):
            text = json.dumps({'jsonrpc': '2.0', 'id': k, 'method': 'h', 'params': params})
            if is_async:
                loop = VLoop()
                try:
                    r = loop.run(d.dispatch(text))
                finally:
                    loop.close()
            else:
                r = d.dispatch(text)
            resp = json.loads(r[0])
            rec.transitions += 1
            good = (resp.get('result') == list(range(n))) if ok else (resp.get('error', {}).get('code') == -32602)
            if not good:
                bad += 1
                rec.violation('C13:a:a handler is bound by the signature of an earlier, discarded handler', dict({k_: v for k_, v in case.items() if k_ != '_d'}, generation=k, params=params),
                              expected='result' if ok else -32602, observed=resp)
                break
        del d, ns
        gc.collect()
        if bad:
            break
    case.pop('_d', None)
    rec.traces += 1
    rec.states += 1
    rec.nontrivial_n += 1
    rec.counters['churn runs'] += 1
    return bad


def run_cancel(case, rec):
    """(b') an asynchronous dispatch that is CANCELLED while its elements are suspended (the client went away): afterwards
    nothing of the request may stay referenced either - contexts, views, tokens dead, no tasks left behind"""
    import asyncio
    req = case['request']
    refs = []
    s = build('async', None, refs=refs, coroutine=True)
    d = s.d
    ctx_refs = []
    outcomes = set()
    measures = {}
    done = 0

    def live_tasks():
        return sum(1 for o in gc.get_objects() if isinstance(o, asyncio.Task))
    for N in (1, 10, 60):
        while done < N:
            c = Ctx(done)
            ctx_refs.append(weakref.ref(c))

            async def go(c=c):
                t = asyncio.ensure_future(d.dispatch(TEXT[req], context=c))
                for _ in range(case['steps']):
                    await asyncio.sleep(0)
                t.cancel()
                try:
                    await t
                except asyncio.CancelledError:
                    return 'cancelled'
                return 'finished'
            loop = VLoop()
            try:
                outcomes.add(loop.run(go()))
            finally:
                loop.close()
            del c, go, loop
            done += 1
            rec.transitions += 1
        gc.collect()
        measures[N] = dict(ctx=sum(1 for r in ctx_refs if r() is not None), objs=sum(1 for r in refs if r() is not None), tasks=live_tasks())
    last = measures[60]
    if last['ctx']:
        rec.violation('C13:b:context objects retained after a cancelled dispatch (%s)' % req, case, expected='0 alive',
                      observed={n: m['ctx'] for n, m in measures.items()})
    elif last['objs']:
        rec.violation('C13:b:per-request objects retained after a cancelled dispatch (%s)' % req, case, expected='0 alive',
                      observed={n: m['objs'] for n, m in measures.items()})
    elif last['tasks'] > measures[10]['tasks'] + 5:
        rec.violation('C13:b:tasks left behind by cancelled dispatches (%s)' % req, case, expected='no growth',
                      observed={n: m['tasks'] for n, m in measures.items()})
    rec.traces += 1
    rec.states += 1
    rec.nontrivial_n += 1
    rec.counters['cancelled dispatches: ' + '/'.join(sorted(outcomes))] += 1
    return (last['ctx'], last['objs'], tuple(sorted(outcomes)))


def run_overlap(case, rec):
    """(c') overlapping dispatch() calls on ONE AsyncDispatcher (what the aiohttp / starlette integrations do for concurrent HTTP
    requests): two or three single requests in flight at the same time, every order in which their suspension points (gates in
    methods / middleware / error handler) can complete; each caller must get the answer of its own request"""
    import asyncio
    from . import c10
    kinds = case['kinds']
    cfg = dict(concurrent=True, mw=case['mw'], eh=case['eh'], elems=tuple((k, True) for k in kinds))
    want, runs = c10.expected(cfg)
    sched = 0

    def once(env):
        mon = c10.Monitor()
        d = c10.build(cfg, mon)
        texts = [json.dumps({'jsonrpc': '2.0', 'method': k, 'params': [i], 'id': c10.id_of(i)}) for i, k in enumerate(kinds)]
        loop = VLoop()

        async def go():
            return await asyncio.gather(*[d.dispatch(t, context=Ctx(i)) for i, t in enumerate(texts)])
        try:
            try:
                out = ('ret', loop.run(go(), choose=lambda labels: env.choose(('gate', tuple(sorted(labels))), len(labels))))
            except Exception as e:   # noqa
                out = ('raise', '%s: %s' % (type(e).__name__, e))
        finally:
            loop.close()
        return out, mon
    for choices, (out, mon) in explore_choices(once, max_exec=50000):
        sched += 1
        rec.transitions += len(choices) + 1
        c = dict(case, choices=list(choices))
        if out[0] != 'ret':
            rec.violation('C13:c:overlapping dispatches: dispatch raised', c, expected='responses', observed=out[1])
            continue
        for i, (r, e) in enumerate(zip(out[1], want)):
            got = json.loads(r[0]) if r else None
            ok = isinstance(got, dict) and typed_eq(got.get('id'), e['id'])
            if ok and 'result' in e:
                ok = 'result' in got and typed_eq(got['result'], e['result'])
            elif ok:
                er = got.get('error') or {}
                ok = er.get('code') == e['code'] and ('message' not in e or (er.get('message') == e['message'] and er.get('data') == e['data']))
            if not ok:
                rec.violation('C13:c:overlapping dispatches on one AsyncDispatcher: a caller got another request\'s answer / a wrong answer', dict(c, caller=i),
                              expected=e, observed=got)
                break
        ran = sorted(i for i, w in mon.events if w == 'run')
        if ran != runs:
            rec.violation('C13:c:overlapping dispatches: methods not executed exactly once each', c, expected=runs, observed=ran)
        if cfg['mw'] != 'none':
            entered = sorted(i for i, w in mon.events if w == 'enter')
            if entered != list(range(len(kinds))):
                rec.violation('C13:c:overlapping dispatches: middleware did not run exactly once for every request', c, expected=list(range(len(kinds))), observed=entered)
    rec.traces += sched
    rec.states += sched
    rec.nontrivial_n += sched if sched > 1 else 0
    rec.counters['overlap schedules'] += sched
    return sched


# ---- (c) -------------------------------------------------------------------------------------------------------
PAIRS = [
    ('whoami', 'ping'), ('page', 'limits'),
    ('push', 'push'), ('view', 'view'), ('ok', 'ok'), ('ctx', 'view'), ('ok', 'boom'), ('batch', 'ctx'), ('jsok', 'jsfail'),
    ('nobind', 'ok'), ('pdok', 'pdok'), ('viewfail', 'view'), ('ctxinject', 'ctx'), ('perr', 'unknown'), ('notif', 'parse'),
    ('fmt-strict-bad', 'fmt-lenient'), ('vpd', 'vjs'), ('pdv2', 'pdok'), ('vpd', 'vpd'),
]
TRIPLES = [('view', 'ctx', 'ok'), ('ok', 'ok', 'boom'), ('view', 'view', 'view')]


def solo(names):
    out = []
    for i, n in enumerate(names):
        s = build('sync', None)
        o = observe(s, TEXT[n], context=Ctx('t%d' % i))
        out.append((json.dumps(o['answer'], sort_keys=True, default=repr), repr(o['calls']), o['raised']))
    return out


def run_threads_case(case, rec):
    names = case['requests']
    want = solo(names)
    sched = 0
    interleaved = 0
    bad = 0

    def once(env):
        s = build('sync', None)
        d = s.d
        outs = [None] * len(names)

        def body(i):
            def f():
                r = d.dispatch(TEXT[names[i]], context=Ctx('t%d' % i))
                outs[i] = r
            return f
        res, tr = run_threads([body(i) for i in range(len(names))], env, [PJRPC_DIR])
        return s, outs, res, tr

    for choices, (s, outs, res, tr) in explore_choices(once, budget=case['budget'], shard=tuple(case['shard']), max_exec=400000):
        sched += 1
        rec.transitions += tr.points
        if tr.interleaved:
            interleaved += 1
        for i, n in enumerate(names):
            k, v = res[i]
            if k == 'exc':
                rec.violation('C13:c:dispatch raised under concurrent service', dict(case, choices=list(choices)),
                              expected=want[i], observed='%s: %s' % (type(v).__name__, v))
                bad += 1
                continue
            r = outs[i]
            ans = json.dumps(None if r is None else json.loads(r[0]), sort_keys=True, default=repr)
            wans = want[i][0] if want[i][0] != '"__NOTHING__"' else 'null'
            if ans != wans:
                rec.violation('C13:c:answer differs from the solo run under a thread schedule', dict(case, choices=list(choices), thread=i),
                              expected=wans, observed=ans)
                bad += 1
        # what the methods saw: each call log entry must be one of the solo entries of some thread
        seen = repr(sorted(repr(x) for x in s.log))
        wseen = repr(sorted(repr(x) for w in want for x in eval(w[1], {'__builtins__': {}}, {})))
        if seen != wseen:
            rec.violation('C13:c:arguments / context seen by the methods differ from the solo runs', dict(case, choices=list(choices)),
                          expected=wseen, observed=seen)
            bad += 1
    rec.traces += sched
    rec.states += sched
    rec.nontrivial_n += interleaved
    rec.counters['thread schedules'] += sched
    rec.counters['thread schedules that interleaved inside dispatch'] += interleaved
    return (sched, interleaved, bad)


def c10_gates(kind, mw, eh):
    from . import c10
    g = c10.KINDS.get(kind, (0, 'unknown'))
    return g[0] + {'none': 0, 'before': 1, 'plainfn': 1}[mw] + (1 if eh == 'gate' and (kind == 'unknown' or g[1] not in ('ok', 'plain')) else 0)


def gen_cases(ctx):
    names = [n for n, _ in ALPHABET]
    # (a)
    L = ctx.pick(2, 3)
    for kind in ('sync', 'async'):
        for n in range(0, L + 1):
            for hist in itertools.product(names, repeat=n):
                yield dict(part='a', kind=kind, history=hist)
    # (b)
    for kind in ('sync', 'async'):
        for req in ('ok', 'boom', 'nobind', 'view', 'viewfail', 'ctx', 'ctxinject', 'jsok', 'jsfail', 'pdok', 'pdfail', 'batch',
                    'notif', 'unknown', 'vpd', 'vpdfail', 'vjs', 'vjsfail', 'fmt-strict-bad', 'pdv2', 'push', 'VARYING-unknown', 'VARYING-notif', 'VARYING-extension'):
            yield dict(part='b', kind=kind, request=req)
    for req in ('batch', 'ctx', 'view', 'ok', 'pdok'):
        for steps in (1, 2, 3, 5):
            yield dict(part='cancel', request=req, steps=steps)
    for kind in ('sync', 'async'):
        for mode in ('fresh', 'replace'):
            yield dict(part='churn', kind=kind, mode=mode, cycles=60)
    for integration in ('werkzeug', 'aiohttp', 'flask'):
        for req in ('call', 'notif', 'notif-batch', 'fail', 'mixed', 'alternate', 'varying-codes') + (('cancelled',) if integration == 'aiohttp' else ()):
            if integration == 'flask' and req != 'varying-codes':
                continue          # flask hands no context over: only the memory measure applies
            yield dict(part='http', integration=integration, request=req)
    ok_kinds = ['g1ok', 'g2ok', 'g1perr', 'v1ok', 'plain', 'unknown', 'g1boom']
    for n in (2, 3):
        for kinds in itertools.product(ok_kinds if n == 2 else ['g1ok', 'g1perr', 'v1ok'], repeat=n):
            for mw, eh in (('none', 'none'), ('before', 'none'), ('none', 'gate'), ('plainfn', 'none')):
                if n == 3 and (mw, eh) != ('before', 'none'):
                    continue
                if any(c10_gates(k, mw, eh) > 2 for k in kinds):
                    continue
                yield dict(part='overlap', kinds=list(kinds), mw=mw, eh=eh)
    # (c)
    for pair in PAIRS:
        deep = ctx.pick(pair in PAIRS[:2], True)
        K = 32 if deep else 4
        for k in range(K):
            yield dict(part='c', requests=pair, budget=2 if deep else 1, shard=(k, K, 2 if deep else 1))
    for tri in TRIPLES:
        for k in range(8):
            yield dict(part='c', requests=tri, budget=1, shard=(k, 8, 1))


def process_state():
    """interpreter-wide settings a dispatch has no business changing"""
    import decimal
    import sys
    return dict(int_max_str_digits=sys.get_int_max_str_digits(), recursionlimit=sys.getrecursionlimit(),
                decimal_prec=decimal.getcontext().prec, switchinterval=sys.getswitchinterval(),
                default_content_type=pjrpc.common.DEFAULT_CONTENT_TYPE, request_types=tuple(pjrpc.common.REQUEST_CONTENT_TYPES))


def run_case(case, rec):
    from mc.core import Recorder
    r = Recorder()
    before = process_state()
    try:
        return run_case_inner(case, rec, r)
    finally:
        after = process_state()
        if after != before:
            changed = {k: (before[k], after[k]) for k in before if before[k] != after[k]}
            rec.violation('C13:process-wide state left changed after the dispatches returned (%s)' % ','.join(sorted(changed)),
                          {k: v for k, v in case.items() if k != '_d'}, expected=before, observed=after)
            # put it back so that the following cases are judged on their own
            import sys
            sys.set_int_max_str_digits(before['int_max_str_digits'])
            sys.setrecursionlimit(before['recursionlimit'])


def run_case_inner(case, rec, r):
    runner = {'a': run_history, 'b': run_retention, 'cancel': run_cancel, 'http': run_http_retention, 'churn': run_churn,
              'overlap': run_overlap}.get(case['part'], run_threads_case)
    try:
        obs = runner(case, r)
    except HarnessError as e:
        # an exploration that does not replay (behaviour depending on something the explorer does not own, e.g. memory addresses):
        # not fatal at once - a genuine violation found elsewhere is still reported; without one the run ends as an ERROR
        r.nondet.append('part %s %s: %s' % (case['part'], {k: v for k, v in case.items() if k not in ('part', '_d')}, e))
        obs = 'not replayable'
    r.counters['part ' + case['part']] += 1
    rec.merge(r)
    return obs


def run(ctx):
    ctx.rule = ('(a) E2 without merging: every history of length <= %d over %d requests (success, each failure class, notification, '
                'batch, class based view, context parameter, jsonschema / pydantic validated methods passing and failing, parse '
                'error, invalid request) then all %d probes, both dispatchers; (b) 20 request kinds (incl. view methods validated by each validator) x both dispatchers x N = 1, 10, '
                '110, 1110 dispatches with a fresh context each; (c) E5: %d request pairs on 2 threads with <= 2 preemptions (quick: '
                '2 pairs with 2, the others with 1) and %d triples on 3 threads with <= 1 preemption, a thread switch possible at '
                'every source line of pjrpc. state = one history / one retention run / one complete thread schedule; non-trivial = '
                'non-empty history, retention run, schedule whose threads really interleaved inside dispatch'
                % (ctx.pick(2, 3), len(ALPHABET), len(ALPHABET), len(PAIRS), len(TRIPLES)))
    ctx.assumptions += ['methods keep no state of their own', 'C-level data races inside CPython are outside the model (GIL-atomic)',
                        'thread pools of 4..16 threads are not explored; memory growth is measured as live contexts / cache sizes / gc object count']
    # determinism re-execution is meaningless for (b) (gc object counts) - compare only a/c
    ctx.run_cases('C13', lambda: gen_cases(ctx), run_case, recheck_every=100003)
    c = ctx.rec.counters
    ctx.guard('threads really interleaved inside dispatch', c['thread schedules that interleaved inside dispatch'] > 100, dict(c))
    ctx.guard('retention runs done', c['retention runs'] == 48, dict(c))


def replay(doc):
    from mc.core import Recorder, jdump
    rec = Recorder()
    case = {k: v for k, v in doc['case'].items() if k not in ('probe', 'choices', 'thread')}
    if case['part'] == 'a':
        case['history'] = tuple(case['history'])
    run_case(case, rec)
    for v in rec.violations[:5]:
        print('VIOLATION-REPLAY signature=%s\n  case=%s\n  expected=%s\n  observed=%s' % (
            v['signature'], jdump(v['case'])[:300], jdump(v['expected'])[:300], jdump(v['observed'])[:300]))
    print('replayed: %d violation(s)' % len(rec.violations))
    return 1 if rec.violations else 0
