"""
C17 - documented parameters are the accepted parameters.
Mode E1 over programs x inputs: every signature (<= 3/4 parameters, positional-or-keyword / keyword-only, defaults) x
context parameter (none / by name / first positional) x exclusion predicate x function / class based view method;
the OpenAPI request schema and the OpenRPC params list are generated with the pydantic extractor and compared with what
python binds; then ALL params objects over subsets of (documented names + an undocumented name + the context name) are
dispatched to the same method.
"""
import itertools
import json

import pjrpc
import pjrpc.server
from pjrpc.server import Method
from pjrpc.server.specs import openapi, openrpc
from pjrpc.server.specs.extractors.pydantic import PydanticSchemaExtractor
from pjrpc.server.validators import BaseValidator

from mc.vloop import VLoop

from typing import Annotated

from pjrpc.server.validators.pydantic import PydanticValidator


class Inject:
    """marker used in Annotated[...] to designate dependency-injected parameters"""


NAMES = ['a', 'b', 'c', 'd', 'e', 'f']


def signatures(maxn):
    out = []
    for n in range(0, maxn + 1):
        for kinds in itertools.product(['pk', 'ko'], repeat=n):
            if any(kinds[i] == 'ko' and kinds[i + 1] == 'pk' for i in range(n - 1)):
                continue
            for defs in itertools.product((False, True), repeat=n):
                pos = [defs[i] for i in range(n) if kinds[i] == 'pk']
                if any(pos[i] and not pos[i + 1] for i in range(len(pos) - 1)):
                    continue
                out.append(tuple(zip(kinds, defs)))
    return out


ALT_NAMES = ['schema', 'copy', 'json', 'dict', 'validate', 'construct']      # parameter names that are attributes of pydantic.BaseModel too


def make_fn(sig, log, ctx_mode, inj, is_method=False, is_async=False, nullable=False, fielddef=False, NAMES=NAMES):
    """-> function; parameters: [self] [ctx first] a.. [ctx kw-only] [inj kw-only with default]"""
    parts = []
    if is_method:
        parts.append('self')
    if ctx_mode == 'positional':
        parts.append('ctx')
    if ctx_mode == 'positional-misnamed':
        # registered with context='ctx', positional=True although the first parameter is called 'request': nothing is named
        # 'ctx', so 'request' is an ordinary (required) parameter for the documents and for binding alike
        parts.append('request: int')
    star = False
    for i, (kind, dflt) in enumerate(sig):
        if kind == 'ko' and not star:
            parts.append('*')
            star = True
        ann = 'Optional[int]' if (nullable and i == 0) else 'int'
        # fielddef: the python default is a pydantic Field(...) object carrying the real default (an optional parameter all the same)
        parts.append(NAMES[i] + ((': %s = Field(7, description="d")' % ann if fielddef else ': %s = 7' % ann) if dflt else ': %s' % ann))
    if ctx_mode == 'name':
        if not star:
            parts.append('*')
            star = True
        parts.append('ctx')
    if inj:
        if not star:
            parts.append('*')
        parts.append('inj: Annotated[str, Inject] = "INJ"' if inj == 'annotated' else ('inj: str = None' if inj == 'none-default' else 'inj: str = "INJ"'))
    names = [NAMES[i] for i in range(len(sig))] + (['request'] if ctx_mode == 'positional-misnamed' else [])
    src = '%sdef f(%s):\n    _log.append(dict(%s))\n    return 1\n' % (
        'async ' if is_async else '', ', '.join(parts), ', '.join('%s=%s' % (n, n) for n in names))
    from typing import Optional
    import pydantic as _pd
    ns = {'_log': log, 'Annotated': Annotated, 'Inject': Inject, 'Optional': Optional, 'Field': _pd.Field}
    exec(src, ns)
    return ns['f'], src


_LONG_LIVED = {}


def paginated(f, log):
    """a functools.wraps decorator that adds an optional keyword parameter and publishes it through __signature__"""
    import functools
    import inspect
    sig = inspect.signature(f)
    params = list(sig.parameters.values())
    extra = inspect.Parameter('limit', inspect.Parameter.KEYWORD_ONLY, default=10, annotation=int)
    idx = len([p for p in params if p.kind != inspect.Parameter.VAR_KEYWORD])
    new_sig = sig.replace(parameters=params[:idx] + [extra] + params[idx:])
    if inspect.iscoroutinefunction(f):
        @functools.wraps(f)
        async def w(*args, limit=10, **kwargs):
            r = await f(*args, **kwargs)
            log[-1]['limit'] = limit
            return r
    else:
        @functools.wraps(f)
        def w(*args, limit=10, **kwargs):
            r = f(*args, **kwargs)
            log[-1]['limit'] = limit
            return r
    w.__signature__ = new_sig
    return w


def resolve(doc, schema, depth=0):
    while isinstance(schema, dict) and '$ref' in schema and depth < 20:
        ref = schema['$ref']
        assert ref.startswith('#/'), ref
        node = doc
        for part in ref[2:].split('/'):
            node = node[part]
        schema = node
        depth += 1
    return schema


def openapi_params(doc, name):
    """-> (documented names, required names) of the request schema of method `name`"""
    paths = [p for p in doc['paths'] if p.endswith('#' + name)]
    assert len(paths) == 1, list(doc['paths'])
    schema = doc['paths'][paths[0]]['post']['requestBody']['content']['application/json']['schema']
    schema = resolve(doc, schema)
    params = resolve(doc, schema['properties']['params'])
    return sorted(params.get('properties', {})), sorted(params.get('required', []))


def openrpc_params(doc, name):
    ms = [m for m in doc['methods'] if m['name'] == name]
    assert len(ms) == 1
    return sorted(p['name'] for p in ms[0]['params']), sorted(p['name'] for p in ms[0]['params'] if p.get('required'))


def gen_cases(ctx):
    for pair in NAME_PAIRS:
        yield dict(names=pair)
    for sig in signatures(ctx.pick(5, 6)):
        for ctx_mode in ('none', 'name', 'positional', 'positional-misnamed'):
            if ctx_mode == 'positional-misnamed' and (len(sig) > 2 or any(k == 'pk' and d for k, d in sig)):
                continue
            for inj in (False, True, 'annotated', 'none-default'):
                for flavour in ('function', 'view', 'view-static', 'view-class', 'function-wrapped', 'function-late'):
                    if inj == 'none-default' and (flavour != 'function' or len(sig) > 3):
                        continue
                    if flavour in ('function-wrapped', 'function-late') and (len(sig) > 3 or ctx_mode not in ('none', 'name') or inj == 'annotated' or (flavour == 'function-late' and not inj)):
                        continue
                    if flavour.startswith('view') and ctx_mode != 'none':
                        continue      # views take the context through their constructor
                    if flavour in ('view-static', 'view-class') and (inj or len(sig) > 3):
                        continue
                    for validator in ('base', 'pydantic', 'pydantic-extra-ignore'):
                        if validator != 'base' and (flavour.startswith('view') or len(sig) > 3 or ctx_mode == 'positional-misnamed'):
                            continue
                        if flavour in ('function-wrapped', 'function-late') and validator == 'pydantic-extra-ignore':
                            continue
                        if flavour in ('function-wrapped', 'function-late'):
                            yield dict(sig=sig, ctx=ctx_mode, inj=inj, flavour=flavour, validator=validator)
                            continue
                        yield dict(sig=sig, ctx=ctx_mode, inj=inj, flavour=flavour, validator=validator)
                        if sig and validator != 'pydantic-extra-ignore' and len(sig) <= 3:
                            # the first parameter is annotated Optional[int] (nullable, but still required when it has no default)
                            yield dict(sig=sig, ctx=ctx_mode, inj=inj, flavour=flavour, validator=validator, nullable=True)
                        if validator == 'pydantic' and flavour == 'function' and any(d for _, d in sig) and len(sig) <= 3 and ctx_mode in ('none', 'name'):
                            yield dict(sig=sig, ctx=ctx_mode, inj=inj, flavour=flavour, validator=validator, fielddef=True)
                        if flavour == 'function' and validator in ('base', 'pydantic') and 1 <= len(sig) <= 3 and ctx_mode in ('none', 'name') and not inj:
                            yield dict(sig=sig, ctx=ctx_mode, inj=inj, flavour=flavour, validator=validator, altnames=True)
                        if flavour == 'function' and validator == 'base' and len(sig) <= 3 and ctx_mode in ('name', 'positional'):
                            # the same method validated by the JSON-Schema validator (a permissive schema: binding decides), and served by
                            # an entry point that passes no context object at all (dispatch(text))
                            yield dict(sig=sig, ctx=ctx_mode, inj=inj, flavour=flavour, validator='jsonschema')
                            yield dict(sig=sig, ctx=ctx_mode, inj=inj, flavour=flavour, validator=validator, nocontext=True)
                            if not inj:
                                yield dict(sig=sig, ctx=ctx_mode, inj=inj, flavour=flavour, validator='pydantic', nocontext=True)


NAME_PAIRS = [('user.get', 'user_get'), ('a_b', 'a.b'), ('getUser', 'get_user'), ('user.get', 'user.get_'), ('v1.get', 'v1get'),
              ('get_user', 'get__user'), ('get_user', 'Get_User')]


def run_names(case, rec):
    """two methods with different parameters whose names differ only in separators / case, documented together: each one's
    published parameters must be its own"""
    n1, n2 = case['names']
    out = []
    for order in ((n1, n2), (n2, n1)):
        def m1(alpha: int, beta: int = 1):
            return 1

        def m2(gamma: str):
            return 2
        fns = {n1: m1, n2: m2}
        truth = {n1: (['alpha', 'beta'], ['alpha']), n2: (['gamma'], ['gamma'])}
        d = pjrpc.server.Dispatcher()
        for n in order:
            d.add(fns[n], name=n)
        methods = list(d.registry.values())
        docs = dict(openapi=openapi.OpenAPI(info=openapi.Info(title='t', version='1'), schema_extractors=[PydanticSchemaExtractor()]).schema(path='/', methods_map={'': methods}),
                    openrpc=openrpc.OpenRPC(info=openrpc.Info(title='t', version='1'), schema_extractor=PydanticSchemaExtractor()).schema(path='/', methods_map={'': methods}))
        rec.transitions += 2
        for kind, doc in docs.items():
            for n in order:
                got = (openapi_params if kind == 'openapi' else openrpc_params)(doc, n)
                if (got[0], got[1]) != truth[n]:
                    camel = lambda x: ''.join(w.capitalize() for w in x.split('_'))     # noqa
                    why = 'names equal after camel-casing' if camel(n1) == camel(n2) else 'distinct names'
                    rec.violation('C17:names:%s documents another method\'s parameters for a method (%s)' % (kind, why),
                                  dict(case, order=list(order), method=n), expected=truth[n], observed=got)
                out.append(got)
    rec.states += 1
    rec.traces += 1
    rec.nontrivial_n += 1
    return repr(out)


def run_case(case, rec):
    if 'names' in case:
        return run_names(case, rec)
    if case.get('altnames'):
        import warnings
        with warnings.catch_warnings():
            warnings.simplefilter('ignore')          # pydantic warns about fields shadowing BaseModel attributes; the documents are what counts
            return _run_case(case, rec)
    return _run_case(case, rec)


def _run_case(case, rec):
    sig = tuple(tuple(x) for x in case['sig'])
    ctx_mode, inj, flavour = case['ctx'], case['inj'], case['flavour']
    NAMES = ALT_NAMES if case.get('altnames') else globals()['NAMES']
    names = [NAMES[i] for i in range(len(sig))] + (['request'] if ctx_mode == 'positional-misnamed' else [])
    truth_names = sorted(names)
    truth_required = sorted([NAMES[i] for i, (k, d) in enumerate(sig) if not d] + (['request'] if ctx_mode == 'positional-misnamed' else []))
    ckw = {} if case.get('nocontext') else dict(context='CTX')
    if flavour == 'function-wrapped':
        # the handler is a functools.wraps wrapper with a __signature__ of its own that adds an optional parameter `limit`
        names = names + ['limit']
        truth_names = sorted(names)
    if inj == 'annotated':
        pred = (lambda name, ann, default: Inject in getattr(ann, '__metadata__', ()))
    elif inj == 'none-default':
        # "injected arguments default to None": parameters WITHOUT a default are not excluded (their default is the `empty` sentinel)
        pred = (lambda name, ann, default: default is None)
    else:
        pred = (lambda name, ann, default: name == 'inj')
    vkind = case.get('validator', 'base')
    obs = []
    for disp in ('sync', 'async'):
        log = []
        d = pjrpc.server.AsyncDispatcher() if disp == 'async' else pjrpc.server.Dispatcher()
        if vkind == 'base':
            validator = BaseValidator(exclude_param=pred) if inj else None
        elif vkind == 'jsonschema':
            from pjrpc.server.validators.jsonschema import JsonSchemaValidator
            _js = JsonSchemaValidator(exclude_param=pred if inj else None)

            class _V:
                validate = staticmethod(lambda fn: _js.validate(schema={'type': 'object'})(fn))
            validator = _V
        else:
            # ONE validator object per configuration serves every program of this process (all handlers are called 'f')
            vkey = (vkind, inj)
            if vkey not in _LONG_LIVED:
                _LONG_LIVED[vkey] = PydanticValidator(exclude_param=pred if inj else None, **({'extra': 'ignore'} if vkind.endswith('ignore') else {}))
            validator = _LONG_LIVED[vkey]
        if flavour in ('view', 'view-static', 'view-class'):
            fn, src = make_fn(sig, log, 'none', inj, is_method=(flavour != 'view-static'), nullable=bool(case.get('nullable')))
            if validator:
                fn = validator.validate(fn)
            if flavour == 'view-static':
                fn = staticmethod(fn)
            elif flavour == 'view-class':
                fn = classmethod(fn)

            class V(pjrpc.server.ViewMixin):
                def __init__(self, context=None):
                    super().__init__()
            V.f = fn
            d.registry.view(V, context='context')
        else:
            fn, src = make_fn(sig, log, ctx_mode, inj, is_async=(disp == 'async'), nullable=bool(case.get('nullable')), fielddef=bool(case.get('fielddef')), NAMES=NAMES)
            if flavour == 'function-wrapped':
                fn = paginated(fn, log)
            kw = {}
            if ctx_mode == 'name':
                kw = dict(context='ctx')
            elif ctx_mode in ('positional', 'positional-misnamed'):
                kw = dict(context='ctx', positional=True)
            if flavour == 'function-late':
                # registered on a registry FIRST, marked for validation afterwards (the decorators the other way round), then merged
                reg = pjrpc.server.MethodRegistry()
                reg.add(fn, name='f', **kw)
                if validator:
                    validator.validate(fn)
                d.add_methods(reg)
            else:
                if validator:
                    fn = validator.validate(fn)
                d.add(fn, name='f', **kw)
        methods = list(d.registry.values())
        ext_kw = dict(exclude_param=pred) if inj else {}
        docs = {}
        try:
            # long-lived specification objects that have documented every earlier program of this process (all under the
            # name 'f' and the path '/'): what they say about THIS program must equal what fresh objects say
            lk = 'inj:%s' % inj
            if lk not in _LONG_LIVED:
                _LONG_LIVED[lk] = (openapi.OpenAPI(info=openapi.Info(title='t', version='1'), schema_extractors=[PydanticSchemaExtractor(**ext_kw)]),
                                   openrpc.OpenRPC(info=openrpc.Info(title='t', version='1'), schema_extractor=PydanticSchemaExtractor(**ext_kw)))
            old_oa, old_orpc = _LONG_LIVED[lk]
            stale = dict(openapi=openapi_params(old_oa.schema(path='/', methods_map={'': methods}), 'f'),
                         openrpc=openrpc_params(old_orpc.schema(path='/', methods_map={'': methods}), 'f'))
            docs['openapi'] = openapi_params(openapi.OpenAPI(
                info=openapi.Info(title='t', version='1'), schema_extractors=[PydanticSchemaExtractor(**ext_kw)],
            ).schema(path='/', methods_map={'': methods}), 'f')
            docs['openrpc'] = openrpc_params(openrpc.OpenRPC(
                info=openrpc.Info(title='t', version='1'), schema_extractor=PydanticSchemaExtractor(**ext_kw),
            ).schema(path='/', methods_map={'': methods}), 'f')
        except Exception as e:   # noqa
            rec.violation('C17:%s:document generation raised %s' % (flavour, type(e).__name__), dict(case, disp=disp, source=src.split('\n')[0]),
                          expected='documents', observed='%s: %s' % (type(e).__name__, e))
            return ('raised',)
        rec.transitions += 4
        c = dict(case, disp=disp, source=src.split('\n')[0])
        for kind in docs:
            if stale[kind] != docs[kind]:
                rec.violation('C17:%s:%s parameters documented by a specification object that documented other registries before differ from a fresh one' % (flavour, kind),
                              c, expected=docs[kind], observed=stale[kind])
        for kind, (dn, dr) in docs.items():
            if dn != truth_names:
                extra = sorted(set(dn) - set(truth_names))
                missing = sorted(set(truth_names) - set(dn))
                rec.violation('C17:%s:%s documents other parameter names than the dispatcher binds (extra=%s missing=%s)' % (
                    flavour, kind, ','.join(extra) or '-', ','.join('x' for _ in missing) or '-'), c, expected=truth_names, observed=dn)
            elif dr != truth_required:
                rec.violation('C17:%s:%s marks other parameters required than those without default' % (flavour, kind), c,
                              expected=truth_required, observed=dr)
        # feed every params object derived from the documents back into the dispatcher
        documented = sorted(set(docs['openapi'][0]) | set(docs['openrpc'][0]) | set(truth_names))
        universe = documented + ['zz'] + (['ctx'] if ctx_mode != 'none' else []) + (['inj'] if inj else [])
        for r in range(len(universe) + 1):
          for sub in itertools.combinations(universe, r):
            for nullkey in ([None] + ([sub[0]] if (sub and vkind == 'base') else [])):
                # second pass: the first member carries JSON null (binding is about names, not values)
                params = {k: (None if k == nullkey else 1) for k in sub}
                del log[:]
                text = json.dumps({'jsonrpc': '2.0', 'id': 1, 'method': 'f', 'params': params})
                try:
                    if disp == 'async':
                        loop = VLoop()
                        try:
                            resp = json.loads(loop.run(d.dispatch(text, **ckw))[0])
                        finally:
                            loop.close()
                    else:
                        resp = json.loads(d.dispatch(text, **ckw)[0])
                except Exception as e:   # noqa
                    resp = {'raised': '%s: %s' % (type(e).__name__, e)}
                rec.transitions += 1
                code = resp.get('error', {}).get('code') if 'error' in resp else None
                for kind, (dn, dr) in docs.items():
                    if dn != truth_names:
                        continue      # already reported above; the consequences for derived params follow from it
                    satisfies = set(sub) <= set(dn) and set(dr) <= set(sub)
                    if satisfies and code == -32602:
                        rec.violation('C17:%s:params satisfying the published %s schema refused with -32602' % (flavour, kind),
                                      dict(c, params=params), expected='not -32602', observed=resp)
                    elif not satisfies and code != -32602:
                        rec.violation('C17:%s:params violating the published %s schema not refused (%s)' % (
                            flavour, kind, 'executed' if log else 'code %s' % code), dict(c, params=params), expected=-32602, observed=resp)
                rec.outcomes['accepted' if code is None else str(code)] += 1
        obs.append((docs['openapi'], docs['openrpc']))
        if ctx_mode == 'name' and flavour == 'function' and vkind == 'base' and disp == 'sync':
            obs.append(twice_registered(case, sig, inj, pred, rec))
    rec.states += 1
    rec.traces += 1
    rec.nontrivial_n += 1 if (sig or ctx_mode != 'none' or inj) else 0
    return tuple(obs)


def twice_registered(case, sig, inj, pred, rec):
    """the same function registered as 'f' (context designated) and as 'g' (no context: ctx is an ordinary required parameter):
    each registration's document must describe what that registration binds, whichever is called first"""
    out = []
    for first in ('g', 'f'):
        log = []
        fn, src = make_fn(sig, log, 'name', inj)
        validator = BaseValidator(exclude_param=pred) if inj else None
        if validator:
            fn = validator.validate(fn)
        d = pjrpc.server.Dispatcher()
        d.add(fn, name='f', context='ctx')
        d.add(fn, name='g')
        ext_kw = dict(exclude_param=pred) if inj else {}
        methods = list(d.registry.values())
        doc = openapi.OpenAPI(info=openapi.Info(title='t', version='1'), schema_extractors=[PydanticSchemaExtractor(**ext_kw)],
                              ).schema(path='/', methods_map={'': methods})
        documented = {n: openapi_params(doc, n) for n in ('f', 'g')}
        for target in (first, 'f', 'g', 'f'):
            dn, dr = documented[target]
            universe = sorted(set(dn) | {'zz', 'ctx'})
            for r in range(len(universe) + 1):
                for sub in itertools.combinations(universe, r):
                    del log[:]
                    text = json.dumps({'jsonrpc': '2.0', 'id': 1, 'method': target, 'params': {k: 1 for k in sub}})
                    resp = json.loads(d.dispatch(text, context='CTX')[0])
                    rec.transitions += 1
                    code = resp.get('error', {}).get('code') if 'error' in resp else None
                    satisfies = set(sub) <= set(dn) and set(dr) <= set(sub)
                    if satisfies != (code != -32602):
                        rec.violation('C17:function:same function registered with and without context: params %s the published schema %s' % (
                            'satisfying' if satisfies else 'violating', 'refused with -32602' if satisfies else 'not refused'),
                            dict(case, called_first=first, target=target, params=sorted(sub), source=src.split('\n')[0]),
                            expected='-32602' if not satisfies else 'not -32602', observed=resp)
                    out.append(code)
    return tuple(out)


def run(ctx):
    ctx.rule = ('E1: all %d signatures with <= %d parameters (positional-or-keyword / keyword-only, with / without default) x context '
                'parameter {none, by name, first positional} x exclusion predicate on/off x {function, class based view method}, both '
                'dispatchers; OpenAPI 3.1 and OpenRPC documents generated with the pydantic extractor; every params object over '
                'subsets of documented names + undocumented + context + excluded name is dispatched. state = one program; '
                'non-trivial = has parameters, a context or an excluded parameter' % (len(signatures(ctx.pick(5, 6))), ctx.pick(5, 6)))
    ctx.assumptions += ['the same exclusion predicate is configured on the validator and on the extractor']
    ctx.run_cases('C17', lambda: gen_cases(ctx), run_case, recheck_every=97)
    oc = ctx.rec.outcomes
    ctx.guard('accepted and refused params objects', oc.get('accepted', 0) > 100 and oc.get('-32602', 0) > 100, dict(oc))


def replay(doc):
    from mc.core import Recorder, jdump
    rec = Recorder()
    c = doc['case']
    if 'names' in c:
        run_case(dict(names=c['names']), rec)
    else:
        run_case(dict(sig=c['sig'], ctx=c['ctx'], inj=c['inj'], flavour=c['flavour'], validator=c.get('validator', 'base'), nullable=c.get('nullable', False), fielddef=c.get('fielddef', False)), rec)
    for v in rec.violations[:5]:
        print('VIOLATION-REPLAY signature=%s\n  case=%s\n  expected=%s\n  observed=%s' % (
            v['signature'], jdump(v['case'])[:400], jdump(v['expected'])[:300], jdump(v['observed'])[:300]))
    print('replayed: %d violation(s)' % len(rec.violations))
    return 1 if rec.violations else 0
