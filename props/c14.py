"""
C14 - parameter validators admit exactly the conforming calls.
Mode E1 over programs x inputs.
 JsonSchemaValidator: signatures of <= 2/3 parameters (positional-or-keyword / keyword-only, defaults) x per-parameter
   schema fragment x required subsets x additionalProperties x all argument tuples over a value alphabet x positional /
   named passing x exclusion predicate.  Oracle: python's binding of a twin + a small evaluator for exactly this schema
   fragment language (NOT the jsonschema package).
 PydanticValidator: annotations x values x coerce on/off x positional / named.  Oracle: pydantic.TypeAdapter per parameter
   (pydantic is trusted, the plumbing around it is what is checked).
"""
import enum
import itertools
import json
from decimal import Decimal
from typing import Annotated, Dict, List, Optional

import pydantic

import pjrpc
import pjrpc.server
from pjrpc.server.validators import jsonschema as vjs
from pjrpc.server.validators import pydantic as vpd

from mc.refmodel.server import typed_eq
from mc.vloop import VLoop

RESULT = 'R'

FRAGS = {
    'none': None, 'int': {'type': 'integer'}, 'str': {'type': 'string'}, 'bool': {'type': 'boolean'},
    'arr': {'type': 'array'}, 'null': {'type': 'null'}, 'enum': {'enum': [0, 'x', None]},
    'range': {'type': 'integer', 'minimum': 0, 'maximum': 5},
    # only meaningful under the dialect named by "$schema" (boolean exclusive bounds: draft-04; numeric ones: draft-06/07; divisibleBy: draft-03)
    'x4range': {'type': 'integer', 'minimum': 0, 'exclusiveMinimum': True, 'maximum': 6, 'exclusiveMaximum': True},
    'x7range': {'type': 'integer', 'exclusiveMinimum': 0, 'exclusiveMaximum': 6},
    'div3': {'type': 'integer', 'divisibleBy': 5},
    # the annotation keyword "default" (a validator does not fill anything in: an omitted argument is the PYTHON default of the parameter)
    'dflt': {'type': 'array', 'default': [7]},
}
DIALECTS = {'draft-03': 'http://json-schema.org/draft-03/schema#', 'draft-04': 'http://json-schema.org/draft-04/schema#',
            'draft-06': 'http://json-schema.org/draft-06/schema#', 'draft-07': 'http://json-schema.org/draft-07/schema#'}
VALUES = [0, 5, 6, -1, 1.5, '5', 'x', True, False, None, [1], {}]


def conforms(frag, v):
    """reference evaluator for the fragment language above"""
    if frag is None:
        return True
    if 'type' in frag:
        t = frag['type']
        ok = {'integer': isinstance(v, int) and not isinstance(v, bool), 'string': isinstance(v, str),
              'boolean': isinstance(v, bool), 'array': isinstance(v, list), 'null': v is None}[t]
        if not ok:
            return False
    if 'enum' in frag and not any(typed_eq(v, e) for e in frag['enum']):
        return False
    num = isinstance(v, (int, float)) and not isinstance(v, bool)
    if 'divisibleBy' in frag and num and v % frag['divisibleBy'] != 0:
        return False
    if frag.get('exclusiveMinimum') is True:
        if num and v <= frag['minimum']:
            return False
    elif 'exclusiveMinimum' in frag and num and v <= frag['exclusiveMinimum']:
        return False
    if frag.get('exclusiveMaximum') is True:
        if num and v >= frag['maximum']:
            return False
    elif 'exclusiveMaximum' in frag and num and v >= frag['exclusiveMaximum']:
        return False
    if 'minimum' in frag and isinstance(v, (int, float)) and not isinstance(v, bool) and v < frag['minimum']:
        return False
    if 'maximum' in frag and isinstance(v, (int, float)) and not isinstance(v, bool) and v > frag['maximum']:
        return False
    return True


def schema_ok(schema, bound):
    """bound: the explicitly passed arguments (name -> value)"""
    for r in schema.get('required', []):
        if r not in bound:
            return False
    props = schema.get('properties', {})
    for k, v in bound.items():
        if k in props:
            if not conforms(props[k], v):
                return False
        elif schema.get('additionalProperties') is False:
            return False
    return True


def js_signatures(maxn):
    out = []
    for n in range(0, maxn + 1):
        for kinds in itertools.product(['pk', 'ko'], repeat=n):
            if any(kinds[i] == 'ko' and kinds[i + 1] == 'pk' for i in range(n - 1)):
                continue
            for defs in itertools.product((False, True), repeat=n):
                pos = [defs[i] for i in range(n) if kinds[i] == 'pk']
                if any(pos[i] and not pos[i + 1] for i in range(len(pos) - 1)):
                    continue
                out.append(tuple(zip(kinds, defs)))
    return out


NAMES = ['a', 'b', 'c']


def make_fn(sig, log, excluded=None, annotations=None, is_async=False):
    parts = []
    star = False
    last_po = max([i for i, (kind, _) in enumerate(sig) if kind == 'po'] or [-1])
    for i, (kind, dflt) in enumerate(sig):
        if i == last_po + 1 and last_po >= 0:
            parts.append('/')
        if kind == 'ko' and not star:
            parts.append('*')
            star = True
        ann = ': A%d' % i if annotations else ''
        if dflt == 'NONE':
            parts.append(NAMES[i] + ann + ' = None')
        elif dflt in ('LIST', 'DICT'):
            parts.append(NAMES[i] + ann + (' = [7]' if dflt == 'LIST' else ' = {"k": 7}'))
        else:
            parts.append(NAMES[i] + ann + (' = "D_%s"' % NAMES[i] if dflt else ''))
    if last_po == len(sig) - 1 and last_po >= 0:
        parts.append('/')
    if excluded:
        if not star:
            parts.append('*')
        parts.append('%s="INJECTED"' % excluded)
    names = [NAMES[i] for i in range(len(sig))] + ([excluded] if excluded else [])
    mutable_defaults = any(d in ('LIST', 'DICT') for _, d in sig)
    # the body records what it received and then modifies its mutable arguments IN PLACE (sorting a list, popping a key ...):
    # whatever the library keeps between calls must not be affected by that
    src = '%sdef f(%s):\n    _log.append(_copy(dict(%s)))\n%s    return %r\n' % (
        'async ' if is_async else '', ', '.join(parts), ', '.join('%s=%s' % (n, n) for n in names),
        '' if mutable_defaults else ''.join('    _mutate(%s)\n' % n for n in names), RESULT)
    ns = {'_log': log, '_copy': __import__('copy').deepcopy, '_mutate': _mutate}
    if annotations:
        for i, a in enumerate(annotations):
            ns['A%d' % i] = a
    exec(src, ns)
    return ns['f'], src


def _mutate(v):
    if isinstance(v, list):
        v.append('MUTATED')
    elif isinstance(v, dict):
        v['MUTATED'] = 1
    elif isinstance(v, pydantic.BaseModel):
        for k in list(type(v).model_fields):
            try:
                setattr(v, k, 'MUTATED')
            except Exception:   # noqa
                pass


def has_mutable(inp):
    vals = inp if isinstance(inp, list) else list(inp.values())
    return any(isinstance(v, (list, dict)) for v in vals)


def twin_bind(sig, inp):
    """python's own binding of the signature without the excluded parameter -> explicit args mapping | None"""
    names = [NAMES[i] for i in range(len(sig))]
    f, _ = make_fn(sig, [])
    import inspect
    try:
        if isinstance(inp, list):
            ba = inspect.signature(f).bind(*inp)
        else:
            ba = inspect.signature(f).bind(**inp)
    except TypeError:
        return None
    return dict(ba.arguments)


def dispatch(d, is_async, text):
    if is_async:
        loop = VLoop()
        try:
            return loop.run(d.dispatch(text))
        finally:
            loop.close()
    return d.dispatch(text)


# ---- jsonschema --------------------------------------------------------------------------------------------------
def gen_js(ctx):
    maxn = ctx.pick(2, 3)
    # (x4range / div3 only mean something under the dialect they belong to: they appear in the "$schema" cases below, never in undeclared schemas)
    frs = ['none', 'int', 'enum', 'range'] if ctx.quick else [f for f in FRAGS if f not in ('x4range', 'div3', 'dflt')]
    for sig in js_signatures(maxn):
        n = len(sig)
        if n == 3:
            frsets = [fr for fr in itertools.product(['none', 'range', 'str'], repeat=3)]
        else:
            frsets = list(itertools.product(frs, repeat=n))
        for fr in frsets:
            for req in itertools.chain.from_iterable(itertools.combinations(range(n), r) for r in range(n + 1)):
                for addl in (None, False):
                    for excl in ((None, 'x') if n <= 1 else (None,)):
                        yield dict(part='js', sig=sig, frags=fr, required=req, addl=addl, excluded=excl)
    for sig in js_signatures(2):
        if sig and sig[0][1]:
            for fr in ((('dflt',) + ('int',) * (len(sig) - 1)),):
                for req in ((), (0,)):
                    yield dict(part='js', sig=sig, frags=fr, required=req, addl=None, excluded=None)
    # schemas that declare their dialect with "$schema": keywords mean what that draft says
    for sig in js_signatures(1):
        if len(sig) == 1:
            for dialect, fr in (('draft-04', 'x4range'), ('draft-04', 'range'), ('draft-07', 'x7range'), ('draft-07', 'range'), ('draft-06', 'x7range'),
                                ('draft-03', 'div3')):
                for req in ((), (0,)):
                    if dialect == 'draft-03' and req:
                        continue          # draft-03 has no "required" array: such a schema would be invalid, not refusing
                    yield dict(part='js', sig=sig, frags=(fr,), required=req, addl=None, excluded=None, dialect=dialect)


def js_inputs(n, quick, excluded):
    vals = VALUES if n <= 1 else ([0, 6, 1.5, 'x', None, True] if n == 2 else [0, 6, 'x'])
    names = [NAMES[i] for i in range(n)]
    for k in range(0, n + 2):
        for tup in itertools.product(vals, repeat=k) if k <= n else [tuple(vals[:k])]:
            yield list(tup)
    extra = ['zz'] + ([excluded] if excluded else [])
    for r in range(0, n + 1):
        for sub in itertools.combinations(names, r):
            for tup in itertools.product(vals, repeat=r):
                yield dict(zip(sub, tup))
                for e in extra:
                    yield dict(zip(sub, tup), **{e: 0})


def run_js(case, rec):
    sig = tuple(tuple(x) for x in case['sig'])
    n = len(sig)
    schema = {'type': 'object', 'properties': {NAMES[i]: FRAGS[f] for i, f in enumerate(case['frags']) if FRAGS[f] is not None}}
    if case['required']:
        schema['required'] = [NAMES[i] for i in case['required']]
    if case['addl'] is False:
        schema['additionalProperties'] = False
    if case.get('dialect'):
        schema['$schema'] = DIALECTS[case['dialect']]
    excl = case['excluded']
    obs = []
    for disp in ('sync', 'async'):
        log = []
        v = vjs.JsonSchemaValidator(exclude_param=(lambda name, ann, default: name == excl) if excl else None)
        f, src = make_fn(sig, log, excluded=excl, is_async=(disp == 'async'))
        import copy
        handed = copy.deepcopy(schema)          # the library gets its own copy: the oracle's schema cannot be touched by it
        f = v.validate(schema=handed)(f)
        d = pjrpc.server.AsyncDispatcher() if disp == 'async' else pjrpc.server.Dispatcher()
        d.add(f, name='f')
        for inp in js_inputs(n, True, excl):
            bound = twin_bind(sig, inp)
            accept = bound is not None and schema_ok(schema, bound)
            problem = None
            for rep in ((1, 2) if has_mutable(inp) else (1,)):
                del log[:]
                try:
                    r = dispatch(d, disp == 'async', json.dumps({'jsonrpc': '2.0', 'id': 1, 'method': 'f', 'params': inp}))
                    resp = json.loads(r[0])
                except Exception as e:   # noqa
                    resp = {'raised': '%s: %s' % (type(e).__name__, e)}
                rec.transitions += 1
                problem = judge(resp, log, accept, bound, sig, excl)
                if problem:
                    problem += '' if rep == 1 else ' [the same call made a second time]'
                    break
            rec.outcomes['js:%s:%s' % ('accept' if accept else ('nobind' if bound is None else 'nonconforming'), 'ok' if not problem else 'BAD')] += 1
            if problem:
                rec.violation('C14:jsonschema:%s' % problem, dict(case, disp=disp, input=inp, source=src.split('\n')[0], schema=schema),
                              expected='executed' if accept else '-32602, not executed', observed=dict(response=resp, saw=list(log)))
            obs.append(problem)
        if handed != schema:
            rec.violation('C14:jsonschema:the schema object handed to the validator was modified by serving requests', dict(case, disp=disp),
                          expected=schema, observed=handed)
    return tuple(obs)


def judge(resp, log, accept, bound, sig, excl, want_seen=None):
    if 'raised' in resp:
        return 'dispatch raised'
    code = resp.get('error', {}).get('code') if 'error' in resp else None
    if not accept:
        if code != -32602:
            return 'non-conforming call not refused with -32602 (%s)' % ('executed' if log else ('internal error' if code == -32603 else 'code %s' % code))
        if log:
            return 'body ran for a refused call'
        if 'data' not in resp['error']:
            return '-32602 without a description'
        return None
    if code is not None:
        return 'conforming call refused (%s)' % ('internal error' if code == -32603 else 'code %s' % code)
    if len(log) != 1:
        return 'body ran %d times' % len(log)
    seen = dict(log[0])
    if excl:
        if seen.pop(excl, None) != 'INJECTED':
            return 'excluded parameter was set by the client'
    want = want_seen if want_seen is not None else {NAMES[i]: bound.get(NAMES[i], 'D_%s' % NAMES[i]) for i in range(len(sig))}
    if not typed_eq(seen, want):
        return 'arguments changed on the way to the method'
    if resp.get('result') != RESULT:
        return 'result changed'
    return None


# ---- pydantic ------------------------------------------------------------------------------------------------------
class Color(enum.Enum):
    RED = 'red'
    BLUE = 'blue'


class Model(pydantic.BaseModel):
    x: int
    y: str = 'dy'


class Strict(pydantic.BaseModel):
    """a model with a custom validator: its failures carry an exception object in the pydantic error context"""
    n: int

    @pydantic.field_validator('n')
    @classmethod
    def positive(cls, v):
        if v < 0:
            raise ValueError('must not be negative')
        return v


ANNS = {
    'strict': Strict,
    'int': int, 'str': str, 'float': float, 'bool': bool, 'optint': Optional[int], 'listint': List[int],
    'dictstrint': Dict[str, int], 'model': Model, 'enum': Color,
    # constraints carried in Annotated metadata
    'posint': Annotated[int, pydantic.Field(gt=0)], 'short': Annotated[str, pydantic.StringConstraints(max_length=3)],
    # a bound that is not a plain JSON value itself (it ends up in pydantic's error context)
    'posdec': Annotated[Decimal, pydantic.Field(gt=Decimal('0.5'))],
}
PVALUES = [0, 1, -3, 1.5, 2.0, 0.25, '0.75', '1', 'x', 'red', 'toolong', True, None, [1, 2], ['1'], ['x'], {'k': 1}, {'k': 'v'}, {'x': 1}, {'x': '2', 'y': 'z'},
           {'x': 'bad'}, {}, {'n': 1}, {'n': -1}]


def adapter_value(ann, v):
    """-> ('ok', coerced) | ('bad',)"""
    try:
        return ('ok', pydantic.TypeAdapter(ANNS[ann]).validate_python(v))
    except pydantic.ValidationError:
        return ('bad',)


def gen_pd(ctx):
    for coerce in (True, False):
        for ann in ANNS:
            yield dict(part='pd', anns=(ann,), coerce=coerce, sig=(('pk', 'NONE'),), excluded=None)
        yield dict(part='pd', anns=('listint',), coerce=coerce, sig=(('pk', 'LIST'),), excluded=None)
        yield dict(part='pd', anns=('dictstrint', 'int'), coerce=coerce, sig=(('pk', 'DICT'), ('ko', True)), excluded=None)
    for ann in ANNS:
        for coerce in (True, False):
            for dflt in (False, True):
                yield dict(part='pd', anns=(ann,), coerce=coerce, sig=(('pk', dflt),), excluded=None)
                yield dict(part='pd', anns=(ann,), coerce=coerce, sig=(('ko', dflt),), excluded='x')
    # model configuration handed to the validator (the parameters still have to bind), positional-only parameters
    for extra in (None, 'ignore', 'allow'):
        for coerce in (True, False):
            for ann in ('int', 'str', 'optint'):
                for sig, excl in (((('pk', False),), None), ((('pk', True),), None), ((('ko', False),), 'x'), ((('po', False),), None), ((('po', True),), None),
                                  ((('po', False), ('pk', True)), None), ((('pk', False), ('ko', True)), 'x')):
                    if extra is None and not any(k == 'po' for k, _ in sig):
                        continue
                    yield dict(part='pd', anns=(ann,) * len(sig), coerce=coerce, sig=sig, excluded=excl, extra=extra)
    pairs = itertools.product(ANNS, repeat=2) if not ctx.quick else itertools.product(['int', 'str', 'optint', 'model', 'enum'], repeat=2)
    for a1, a2 in pairs:
        for coerce in (True, False):
            yield dict(part='pd', anns=(a1, a2), coerce=coerce, sig=(('pk', False), ('pk', True)), excluded=None)


def pd_inputs(n, excluded):
    vals = PVALUES if n == 1 else [1, '1', 'x', None, [1, 2], {'x': 1}, 'red', 1.5]
    names = [NAMES[i] for i in range(n)]
    for k in range(0, n + 2):
        for tup in itertools.product(vals, repeat=k) if k <= n else [tuple(vals[:k])]:
            yield list(tup)
    extra = ['zz'] + ([excluded] if excluded else [])
    for r in range(0, n + 1):
        for sub in itertools.combinations(names, r):
            for tup in itertools.product(vals, repeat=r):
                yield dict(zip(sub, tup))
                if r <= 1:
                    for e in extra:
                        yield dict(zip(sub, tup), **{e: 0})


def run_pd(case, rec):
    sig = tuple(tuple(x) for x in case['sig'])
    n = len(sig)
    anns = case['anns']
    excl = case['excluded']
    obs = []
    for disp in ('sync', 'async'):
        log = []
        v = vpd.PydanticValidator(coerce=case['coerce'], exclude_param=(lambda name, ann, default: name == excl) if excl else None,
                                  **(dict(extra=case['extra']) if case.get('extra') else {}))
        f, src = make_fn(sig, log, excluded=excl, annotations=[ANNS[a] for a in anns], is_async=(disp == 'async'))
        f = v.validate(f)
        d = pjrpc.server.AsyncDispatcher() if disp == 'async' else pjrpc.server.Dispatcher()
        d.add(f, name='f')
        for inp in pd_inputs(n, excl):
            bound = twin_bind(sig, inp)
            accept = bound is not None
            want_seen = None
            if accept:
                want_seen = {}
                for i in range(n):
                    name = NAMES[i]
                    if name in bound:
                        a = adapter_value(anns[i], bound[name])
                        if a[0] == 'bad':
                            accept = False
                            break
                        want_seen[name] = a[1] if case['coerce'] else bound[name]
                    else:
                        want_seen[name] = {'LIST': [7], 'DICT': {'k': 7}, 'NONE': None}.get(sig[i][1], 'D_%s' % name)
            if accept and any(k == 'po' for k, _ in sig):
                continue          # bindable calls of positional-only signatures are handed over by keyword: known finding F-C04-3 (C04); only refusals are judged here
            problem = None
            for rep in ((1, 2) if has_mutable(inp) else (1,)):
                del log[:]
                try:
                    r = dispatch(d, disp == 'async', json.dumps({'jsonrpc': '2.0', 'id': 1, 'method': 'f', 'params': inp}))
                    resp = json.loads(r[0])
                except Exception as e:   # noqa
                    resp = {'raised': '%s: %s' % (type(e).__name__, str(e)[:200])}
                rec.transitions += 1
                # the method sees python objects (models, enums): compare by equality, not by JSON typing
                problem = judge_pd(resp, log, accept, want_seen, excl)
                if problem:
                    problem += '' if rep == 1 else ' [the same call made a second time]'
                    break
            rec.outcomes['pd:%s:%s' % ('accept' if accept else ('nobind' if bound is None else 'nonconforming'), 'ok' if not problem else 'BAD')] += 1
            if problem:
                rec.violation('C14:pydantic:%s' % problem, dict(case, disp=disp, input=inp, source=src.split('\n')[0]),
                              expected=('executed with %r' % (want_seen,)) if accept else '-32602, not executed',
                              observed=dict(response=resp, saw=repr(log)))
            obs.append(problem)
    return tuple(obs)


def judge_pd(resp, log, accept, want_seen, excl):
    if 'raised' in resp:
        return 'dispatch raised'
    code = resp.get('error', {}).get('code') if 'error' in resp else None
    if not accept:
        if code != -32602:
            return 'non-conforming call not refused with -32602 (%s)' % ('executed' if log else ('internal error' if code == -32603 else 'code %s' % code))
        if log:
            return 'body ran for a refused call'
        if 'data' not in resp['error']:
            return '-32602 without a description'
        return None
    if code is not None:
        return 'conforming call refused (%s)' % ('internal error' if code == -32603 else 'code %s' % code)
    if len(log) != 1:
        return 'body ran %d times' % len(log)
    seen = dict(log[0])
    if excl and seen.pop(excl, None) != 'INJECTED':
        return 'excluded parameter was set by the client'
    if set(seen) != set(want_seen) or any(type(seen[k]) is not type(want_seen[k]) or seen[k] != want_seen[k] for k in seen):
        return 'method saw other values than the annotated types / the original arguments'
    if resp.get('result') != RESULT:
        return 'result changed'
    return None


class CTXOBJ:
    pass


def gen_ctx(ctx):
    for v in ('js', 'pd-coerce', 'pd-plain', 'base'):
        for first in ('f', 'g'):
            for disp in ('sync', 'async'):
                for ann in ('int', 'str'):
                    yield dict(part='ctx', validator=v, first=first, disp=disp, ann=ann)
                    yield dict(part='ctx', validator=v, first=first, disp=disp, ann=ann, nocontext=True)


def run_ctx(case, rec):
    """
    the context parameter under each validator: never settable by the client, always the server-side object; and the SAME
    function registered a second time without a context (there 'ctx' is an ordinary, validated parameter) behaves as declared
    whichever registration is called first (the validators cache per-function data).
    """
    from pjrpc.server.validators import BaseValidator
    v = case['validator']
    ann = ANNS[case['ann']]
    log = []
    is_async = case['disp'] == 'async'
    ns = {'_log': log, 'A': ann}
    exec('%sdef f(a: A, ctx, b: A = None):\n    _log.append(dict(a=a, b=b, ctx=ctx))\n    return %r\n' % ('async ' if is_async else '', RESULT), ns)
    fn = ns['f']
    good, bad = (1, 'x') if case['ann'] == 'int' else ('s', 5)
    if v == 'js':
        t = 'integer' if case['ann'] == 'int' else 'string'
        validator = vjs.JsonSchemaValidator()
        fn = validator.validate(schema={'type': 'object', 'properties': {'a': {'type': t}, 'b': {'type': t}}})(fn)
    elif v.startswith('pd'):
        validator = vpd.PydanticValidator(coerce=(v == 'pd-coerce'))
        fn = validator.validate(fn)
    else:
        validator = BaseValidator()
        fn = validator.validate(fn)
    d = pjrpc.server.AsyncDispatcher() if is_async else pjrpc.server.Dispatcher()
    d.add(fn, name='f', context='ctx')
    d.add(fn, name='g')
    # 'nocontext': the request is dispatched WITHOUT a context (dispatch(text), the flask integration): the designated parameter is
    # None then - still not a client parameter
    ctxobj = None if case.get('nocontext') else CTXOBJ()
    typed = v != 'base'
    # (target, params) -> expected: ('run', what the body sees) | 'refuse'
    table = {
        'f': [([good], ('run', dict(a=good, b=None, ctx=ctxobj))), ({'a': good}, ('run', dict(a=good, b=None, ctx=ctxobj))),
              ({'a': good, 'ctx': 'evil'}, 'refuse'), ([good, 'evil'], ('run', dict(a=good, b='evil', ctx=ctxobj)) if not typed else 'refuse-or-typed'),
              ([good, good, good], 'refuse'), ({'a': good, 'b': good}, ('run', dict(a=good, b=good, ctx=ctxobj))), ([], 'refuse'),
              ({'a': bad}, 'refuse' if typed else ('run', dict(a=bad, b=None, ctx=ctxobj))), ({'ctx': 'evil'}, 'refuse')],
        'g': [([good], 'refuse'), ({'a': good}, 'refuse'), ({'a': good, 'ctx': 'c'}, ('run', dict(a=good, b=None, ctx='c'))),
              ([good, 'c'], ('run', dict(a=good, b=None, ctx='c'))), ([good, 'c', good], ('run', dict(a=good, b=good, ctx='c'))),
              ([good, 'c', good, good], 'refuse'), ({'ctx': 'c'}, 'refuse')],
    }
    obs = []
    for target in (case['first'], 'f', 'g', 'f'):
        for params, want in table[target]:
            if want == 'refuse-or-typed':
                # [good, 'evil'] binds b='evil': refused iff 'evil' does not conform to the annotation of b
                want = 'refuse' if case['ann'] == 'int' else ('run', dict(a=good, b='evil', ctx=ctxobj))
            del log[:]
            text = json.dumps({'jsonrpc': '2.0', 'id': 1, 'method': target, 'params': params})
            try:
                if is_async:
                    loop = VLoop()
                    try:
                        resp = json.loads(loop.run(d.dispatch(text, context=ctxobj))[0])
                    finally:
                        loop.close()
                else:
                    resp = json.loads(d.dispatch(text, context=ctxobj)[0])
            except Exception as e:   # noqa
                resp = {'raised': '%s: %s' % (type(e).__name__, e)}
            rec.transitions += 1
            code = resp.get('error', {}).get('code') if 'error' in resp else None
            problem = None
            if 'raised' in resp:
                problem = 'dispatch raised'
            elif want == 'refuse':
                if code != -32602 or log:
                    problem = 'call that must be refused was not (%s)' % ('executed' if log else 'code %s' % code)
            else:
                if code is not None:
                    problem = 'conforming call refused (code %s)' % code
                elif len(log) != 1 or any(log[0][k] != want[1][k] for k in ('a', 'b')) or \
                        (log[0]['ctx'] is not want[1]['ctx'] and log[0]['ctx'] != want[1]['ctx']):
                    problem = 'method saw other arguments / another context'
            rec.outcomes['ctx:%s:%s' % ('refuse' if want == 'refuse' else 'run', 'ok' if not problem else 'BAD')] += 1
            if problem:
                rec.violation('C14:context parameter under the %s validator:%s' % (v.split('-')[0], problem),
                              dict(case, target=target, params=params), expected=repr(want), observed=dict(response=resp, saw=repr(log)))
            obs.append(problem)
    return tuple(obs)


def gen_multi(ctx):
    for disp in ('sync', 'async'):
        for order in ('strict-first', 'plain-first'):
            yield dict(part='multi', disp=disp, order=order)
        for v in ('base', 'js', 'pd'):
            yield dict(part='viewpred', disp=disp, validator=v)
            yield dict(part='viewpred', disp=disp, validator=v, view_context='a')
        for first in ('users', 'posts'):
            for coerce in (True, False):
                yield dict(part='samename', disp=disp, first=first, coerce=coerce)
        for v in ('default', 'base', 'js', 'pd'):
            yield dict(part='variadic', disp=disp, validator=v)
        for order in (['v1', 'v2'], ['v2', 'v1']):
            yield dict(part='twoschemas', disp=disp, order=order)
        for v in ('base', 'js', 'pd'):
            for order in itertools.permutations(['who', 'ping', 'version']):
                yield dict(part='noargs', disp=disp, validator=v, order=list(order) + list(order))
        for group in ('float', 'int'):
            for order in itertools.permutations(range(3)):
                for coerce in (True, False):
                    yield dict(part='eqsig', disp=disp, group=group, order=list(order), coerce=coerce)


def run_multi(case, rec):
    """several validator OBJECTS in one process, configured differently: the configuration of one must not become the
    default of another (constructor arguments and per-method arguments)"""
    import jsonschema as _js
    is_async = case['disp'] == 'async'
    log = []
    schema = {'type': 'object', 'properties': {'h': {'type': 'string', 'format': 'ipv4'}}, 'required': ['h']}

    def mk(name):
        ns = {'_log': log}
        exec('%sdef %s(h):\n    _log.append((%r, h))\n    return h\n' % ('async ' if is_async else '', name, name), ns)
        return ns[name]

    def build_strict():
        return vjs.JsonSchemaValidator(format_checker=_js.FormatChecker()).validate(schema=dict(schema))(mk('strict'))

    def build_plain():
        return vjs.JsonSchemaValidator().validate(schema=dict(schema))(mk('plain'))

    def build_d4():
        return vjs.JsonSchemaValidator(cls=_js.Draft4Validator).validate(schema=dict(schema))(mk('d4'))
    def build_fallback():
        # a validator constructed with a permissive default schema; the method brings its own, stricter one
        return vjs.JsonSchemaValidator(schema={'type': 'object'}).validate(schema=dict(schema, properties={'h': {'type': 'integer'}}))(mk('fallback'))
    fns = [build_strict(), build_d4(), build_plain(), build_fallback()] if case['order'] == 'strict-first' else [build_fallback(), build_plain(), build_d4(), build_strict()]
    d = pjrpc.server.AsyncDispatcher() if is_async else pjrpc.server.Dispatcher()
    for f in fns:
        d.add(f, name=f.__name__)
    obs = []
    # (method, argument) -> executed?
    table = [('plain', 'not-an-ip', True), ('strict', 'not-an-ip', False), ('strict', '1.2.3.4', True), ('plain', '1.2.3.4', True),
             ('d4', 'not-an-ip', True), ('plain', 5, False), ('strict', 5, False), ('plain', 'not-an-ip', True),
             ('fallback', 5, True), ('fallback', 'x', False)]
    for name, arg, accept in table:
        del log[:]
        r = dispatch(d, is_async, json.dumps({'jsonrpc': '2.0', 'id': 1, 'method': name, 'params': [arg]}))
        resp = json.loads(r[0])
        rec.transitions += 1
        code = resp.get('error', {}).get('code') if 'error' in resp else None
        ok = (code is None and len(log) == 1) if accept else (code == -32602 and not log)
        rec.outcomes['multi:%s' % ('ok' if ok else 'BAD')] += 1
        if not ok:
            rec.violation('C14:jsonschema:validator objects influence each other (%s)' % (
                'conforming call refused' if accept else 'non-conforming call executed'), dict(case, method=name, arg=arg),
                expected='executed' if accept else '-32602', observed=resp)
        obs.append(ok)
    return tuple(obs)


def run_samename(case, rec):
    """two different methods that share their __name__ (users.get / posts.get, or the same method name on two views),
    validated by one validator object: whatever the validator caches must not be keyed by the bare name"""
    is_async = case['disp'] == 'async'
    log = []
    v = vpd.PydanticValidator(coerce=case['coerce'])
    js = vjs.JsonSchemaValidator()

    def mk(ann, default, tag):
        ns = {'_log': log, 'A': ann}
        exec('%sdef get(id: A, limit: A = %r):\n    _log.append((%r, id, limit))\n    return [%r, id]\n' % (
            'async ' if is_async else '', default, tag, tag), ns)
        return ns['get']
    users_get = v.validate(mk(int, 10, 'users'))
    posts_get = v.validate(mk(str, 'ten', 'posts'))
    ujs = js.validate(schema={'type': 'object', 'properties': {'id': {'type': 'integer'}}})(mk(int, 10, 'ujs'))
    pjs = js.validate(schema={'type': 'object', 'properties': {'id': {'type': 'string'}}})(mk(str, 'ten', 'pjs'))
    d = pjrpc.server.AsyncDispatcher() if is_async else pjrpc.server.Dispatcher()
    d.add(users_get, name='users.get')
    d.add(posts_get, name='posts.get')
    d.add(ujs, name='ujs.get')
    d.add(pjs, name='pjs.get')
    table = {
        'users': [('users.get', [5], ('users', 5, 10)), ('users.get', ['x'], None), ('users.get', {'id': 7, 'limit': 2}, ('users', 7, 2))],
        'posts': [('posts.get', ['x'], ('posts', 'x', 'ten')), ('posts.get', [5], None), ('posts.get', {'id': 'y', 'limit': 'z'}, ('posts', 'y', 'z'))],
        'ujs': [('ujs.get', [5], ('ujs', 5, 10)), ('ujs.get', ['x'], None)],
        'pjs': [('pjs.get', ['x'], ('pjs', 'x', 'ten')), ('pjs.get', [5], None)],
    }
    order = ['users', 'posts', 'ujs', 'pjs', 'users', 'posts'] if case['first'] == 'users' else ['posts', 'users', 'pjs', 'ujs', 'posts', 'users']
    obs = []
    for grp in order:
        for name, params, seen in table[grp]:
            del log[:]
            r = dispatch(d, is_async, json.dumps({'jsonrpc': '2.0', 'id': 1, 'method': name, 'params': params}))
            resp = json.loads(r[0])
            rec.transitions += 1
            code = resp.get('error', {}).get('code') if 'error' in resp else None
            ok = (code is None and log == [seen]) if seen is not None else (code == -32602 and not log)
            rec.outcomes['samename:%s' % ('ok' if ok else 'BAD')] += 1
            if not ok:
                rec.violation('C14:methods sharing a name under one validator object:%s' % (
                    'conforming call refused / arguments changed' if seen is not None else 'non-conforming call executed'),
                    dict(case, method=name, params=params), expected=seen if seen is not None else '-32602', observed=dict(response=resp, saw=list(log)))
            obs.append(ok)
    return tuple(obs)


def run_eqsig(case, rec):
    """methods whose signatures COMPARE equal (defaults 1 / 1.0 / True, 0 / False) validated by one validator object: each
    one's omitted argument must be its own default, whichever was called first"""
    is_async = case['disp'] == 'async'
    log = []
    v = vpd.PydanticValidator(coerce=case['coerce'])

    def mk(ann, default, tag):
        ns = {'_log': log, 'A': ann}
        exec('%sdef scale(x: A = %r):\n    _log.append((%r, type(x).__name__, x))\n    return [%r, type(x).__name__, repr(x)]\n' % (
            'async ' if is_async else '', default, tag, tag), ns)
        return ns['scale']
    group = {'float': [(float, 1, 'i'), (float, 1.0, 'f'), (float, True, 'b')], 'int': [(int, 0, 'i'), (int, False, 'b'), (int, 0.0, 'f')]}[case['group']]
    order = [group[i] for i in case['order']]
    d = pjrpc.server.AsyncDispatcher() if is_async else pjrpc.server.Dispatcher()
    for ann, default, tag in order:
        d.add(v.validate(mk(ann, default, tag)), name='scale_' + tag)
    obs = []
    for rep in (1, 2):
        for ann, default, tag in order:
            del log[:]
            resp = json.loads(dispatch(d, is_async, json.dumps({'jsonrpc': '2.0', 'id': 1, 'method': 'scale_' + tag}))[0])
            rec.transitions += 1
            want = [tag, type(default).__name__, repr(default)]
            ok = resp.get('result') == want and log == [(tag, type(default).__name__, default)]
            rec.outcomes['eqsig:%s' % ('ok' if ok else 'BAD')] += 1
            if not ok:
                rec.violation('C14:methods with equal-comparing signatures under one validator object:omitted argument is not the method\'s own default',
                              dict(case, method='scale_' + tag), expected=want, observed=dict(response=resp, saw=repr(log)))
            obs.append(ok)
    return tuple(obs)


def run_noargs(case, rec):
    """methods without client parameters (a context-only method, a parameterless validated method) called in turn with params
    omitted / [] / {}: each call is bound on its own - nothing (least of all a context object) travels from one call to the next"""
    from pjrpc.server.validators import BaseValidator
    is_async = case['disp'] == 'async'
    log = []
    vk = case['validator']
    validator = {'base': BaseValidator, 'js': vjs.JsonSchemaValidator, 'pd': vpd.PydanticValidator}[vk]()
    ns = {'_log': log}
    pre = 'async ' if is_async else ''
    exec(pre + 'def who(request):\n    _log.append(("who", request))\n    return request\n' +
         pre + 'def ping():\n    _log.append(("ping",))\n    return "pong"\n' +
         pre + 'def version(flag=False):\n    _log.append(("version", flag))\n    return ["v", flag]\n', ns)
    who = validator.validate(ns['who']) if vk != 'js' else validator.validate(schema={'type': 'object', 'properties': {}, 'additionalProperties': False})(ns['who'])
    ping = validator.validate(ns['ping']) if vk != 'js' else validator.validate(schema={'type': 'object', 'properties': {}, 'additionalProperties': False})(ns['ping'])
    d = pjrpc.server.AsyncDispatcher() if is_async else pjrpc.server.Dispatcher()
    d.add(who, name='who', context='request')
    d.add(ping, name='ping')
    d.add(ns['version'], name='version')
    want = {'who': ('who', 'CTX'), 'ping': ('ping',), 'version': ('version', False)}
    wantr = {'who': 'CTX', 'ping': 'pong', 'version': ['v', False]}
    obs = []
    for name in case['order']:
        for params in ('<absent>', [], {}):
            doc = {'jsonrpc': '2.0', 'id': 1, 'method': name}
            if params != '<absent>':
                doc['params'] = params
            del log[:]
            if is_async:
                loop = VLoop()
                try:
                    r = loop.run(d.dispatch(json.dumps(doc), context='CTX'))
                finally:
                    loop.close()
            else:
                r = d.dispatch(json.dumps(doc), context='CTX')
            resp = json.loads(r[0])
            rec.transitions += 1
            ok = resp.get('result') == wantr[name] and log == [want[name]]
            rec.outcomes['noargs:%s' % ('ok' if ok else 'BAD')] += 1
            if not ok:
                rec.violation('C14:calls without arguments:a parameterless call is refused / sees something left behind by an earlier call', dict(case, method=name, params=params),
                              expected=wantr[name], observed=dict(response=resp, saw=repr(log)))
            obs.append(ok)
    return tuple(obs)


def run_variadic(case, rec):
    """methods that also take *args / **kwargs, called WITHOUT any extras, under each validator: the fixed parameters are bound and
    validated as usual and the variadic ones stay empty"""
    from pjrpc.server.validators import BaseValidator
    is_async = case['disp'] == 'async'
    vk = case['validator']
    log = []
    ns = {'_log': log}
    pre = 'async ' if is_async else ''
    exec(pre + 'def va(a: int, *rest):\n    _log.append(("va", a, rest))\n    return [a, list(rest)]\n' +
         pre + 'def vk(a: int, **extra):\n    _log.append(("vk", a, extra))\n    return [a, extra]\n' +
         pre + 'def vb(a: int, *rest, **extra):\n    _log.append(("vb", a, rest, extra))\n    return [a, list(rest), extra]\n', ns)
    schema = {'type': 'object', 'properties': {'a': {'type': 'integer'}}, 'required': ['a']}
    d = pjrpc.server.AsyncDispatcher() if is_async else pjrpc.server.Dispatcher()
    for name in ('va', 'vk', 'vb'):
        f = ns[name]
        if vk == 'js':
            f = vjs.JsonSchemaValidator().validate(schema=schema)(f)
        elif vk == 'pd':
            f = vpd.PydanticValidator().validate(f)
        elif vk == 'base':
            f = BaseValidator().validate(f)
        d.add(f, name=name)
    want = {'va': (('va', 1, ()), [1, []]), 'vk': (('vk', 1, {}), [1, {}]), 'vb': (('vb', 1, (), {}), [1, [], {}])}
    obs = []
    for name in ('va', 'vk', 'vb'):
        for params, good in (([1], True), ({'a': 1}, True), ([], False), ({}, False)):
            del log[:]
            resp = json.loads(dispatch(d, is_async, json.dumps({'jsonrpc': '2.0', 'id': 1, 'method': name, 'params': params}))[0])
            rec.transitions += 1
            code = resp.get('error', {}).get('code') if 'error' in resp else None
            ok = (code is None and log == [want[name][0]] and resp.get('result') == want[name][1]) if good else (code == -32602 and not log)
            rec.outcomes['variadic:%s' % ('ok' if ok else 'BAD')] += 1
            if not ok:
                rec.violation('C14:variadic methods called without extras (%s validator):%s' % (vk, 'conforming call refused / arguments changed' if good else 'non-conforming call not refused with -32602'),
                              dict(case, method=name, params=params), expected=want[name] if good else -32602, observed=dict(response=resp, saw=repr(log)))
            obs.append(ok)
    return tuple(obs)


def run_twoschemas(case, rec):
    """ONE function registered under two names, decorated for each with its own schema (a versioned API sharing the
    implementation): each registered method keeps the schema it was registered with"""
    is_async = case['disp'] == 'async'
    log = []
    ns = {'_log': log}
    exec(('async ' if is_async else '') + 'def impl(a):\n    _log.append(a)\n    return a\n', ns)
    impl = ns['impl']
    v = vjs.JsonSchemaValidator()
    d = pjrpc.server.AsyncDispatcher() if is_async else pjrpc.server.Dispatcher()
    sch = {'v1': {'type': 'object', 'properties': {'a': {'type': 'integer'}}}, 'v2': {'type': 'object', 'properties': {'a': {'type': 'string'}}}}
    for name in case['order']:
        d.add(v.validate(schema=sch[name])(impl), name=name)
    obs = []
    for name in ('v1', 'v2', 'v1'):
        for val in (5, 'five'):
            good = (name == 'v1') == isinstance(val, int)
            del log[:]
            resp = json.loads(dispatch(d, is_async, json.dumps({'jsonrpc': '2.0', 'id': 1, 'method': name, 'params': [val]}))[0])
            rec.transitions += 1
            code = resp.get('error', {}).get('code') if 'error' in resp else None
            ok = (code is None and log == [val]) if good else (code == -32602 and not log)
            rec.outcomes['twoschemas:%s' % ('ok' if ok else 'BAD')] += 1
            if not ok:
                rec.violation('C14:one function registered twice with two schemas:%s' % ('conforming call refused' if good else 'non-conforming call executed'),
                              dict(case, method=name, value=val), expected='executed' if good else -32602, observed=dict(response=resp, saw=list(log)))
            obs.append(ok)
    return tuple(obs)


def run_viewpred(case, rec):
    """a class based view method under a validator whose exclusion predicate also matches the (unannotated) `self`"""
    import inspect

    from pjrpc.server.validators import BaseValidator
    is_async = case['disp'] == 'async'
    log = []
    pred = lambda name, ann, default: ann is inspect.Parameter.empty     # noqa - matches self and dep
    v = {'base': BaseValidator, 'js': vjs.JsonSchemaValidator, 'pd': vpd.PydanticValidator}[case['validator']](exclude_param=pred)

    class View(pjrpc.server.ViewMixin):
        def __init__(self, context=None):
            super().__init__()

        def vm(self, a: int, b: int = 2, dep=None):
            log.append(dict(a=a, b=b, dep=dep))
            return [a, b]
    if case['validator'] == 'js':
        v.validate(schema={'type': 'object', 'properties': {'a': {'type': 'integer'}, 'b': {'type': 'integer'}}})(View.vm)
    else:
        v.validate(View.vm)
    d = pjrpc.server.AsyncDispatcher() if is_async else pjrpc.server.Dispatcher()
    if case.get('view_context'):
        d.registry.view(View, context=case['view_context'])
    else:
        d.registry.view(View)
    typed = case['validator'] != 'base'
    table = [([1], True, dict(a=1, b=2)), ([1, 3], True, dict(a=1, b=3)), ({'a': 1}, True, dict(a=1, b=2)), ({'a': 1, 'b': 4}, True, dict(a=1, b=4)),
             ([], False, None), ({'b': 1}, False, None), ({'a': 1, 'dep': 'x'}, False, None), ([1, 2, 'x'], False, None),
             ({'a': 1, 'self': 0}, False, None), ({'a': 'x'}, not typed, dict(a='x', b=2))]
    obs = []
    for params, accept, seen in table:
        del log[:]
        r = dispatch(d, is_async, json.dumps({'jsonrpc': '2.0', 'id': 1, 'method': 'vm', 'params': params}))
        resp = json.loads(r[0])
        rec.transitions += 1
        code = resp.get('error', {}).get('code') if 'error' in resp else None
        if accept:
            ok = code is None and len(log) == 1 and log[0]['a'] == seen['a'] and log[0]['b'] == seen['b'] and log[0]['dep'] is None
        else:
            ok = code == -32602 and not log
        rec.outcomes['viewpred:%s' % ('ok' if ok else 'BAD')] += 1
        if not ok:
            rec.violation('C14:view method with an exclusion predicate (%s validator):%s' % (
                case['validator'], 'conforming call refused / arguments changed' if accept else 'call that must be refused was not'),
                dict(case, params=params), expected=seen if accept else '-32602', observed=dict(response=resp, saw=list(log)))
        obs.append(ok)
    return tuple(obs)


def run_loader(case, rec):
    """the dispatcher is configured with a JSON loader that yields values the response encoder does not know (json.loads with
    parse_float=Decimal, money amounts): a call that violates the schema at such a value is still refused with -32602"""
    import decimal
    import functools
    obs = []
    for vkind in ('jsonschema', 'pydantic', 'base'):
        for disp in ('sync', 'async'):
            log = []
            ns = {'_log': log}
            exec(('async ' if disp == 'async' else '') + 'def pay(amount, note=None):\n    _log.append(amount)\n    return "paid"\n', ns)
            f = ns['pay']
            if vkind == 'jsonschema':
                f = vjs.JsonSchemaValidator().validate(schema={'type': 'object', 'properties': {'amount': {'type': 'number', 'maximum': 5}, 'note': {'type': ['string', 'null']}}})(f)
            elif vkind == 'pydantic':
                f.__annotations__ = {'amount': pydantic.conint(le=5), 'note': Optional[str]}
                f = vpd.PydanticValidator().validate(f)
            d = (pjrpc.server.AsyncDispatcher if disp == 'async' else pjrpc.server.Dispatcher)(json_loader=functools.partial(json.loads, parse_float=decimal.Decimal))
            d.add(f, name='pay')
            for params, accept in (('[6.5]', False), ('{"amount": 7.25}', False), ('[1, 2.5]', False), ('[1.5, 2.5, 3.5]', False if vkind != 'base' else False),
                                   ('{"amount": 1, "zz": 0.5}', False), ('[3]', True)):
                if vkind == 'base' and params in ('[6.5]', '{"amount": 7.25}', '[1, 2.5]'):
                    continue          # the base validator only binds: these calls bind
                del log[:]
                try:
                    r = dispatch(d, disp == 'async', '{"jsonrpc": "2.0", "id": 1, "method": "pay", "params": %s}' % params)
                    resp = json.loads(r[0])
                except Exception as e:   # noqa
                    resp = {'raised': '%s: %s' % (type(e).__name__, str(e)[:200])}
                rec.transitions += 1
                code = resp.get('error', {}).get('code') if isinstance(resp, dict) else None
                ok = (code is None and resp.get('result') == 'paid' and len(log) == 1) if accept else (code == -32602 and not log)
                if not ok:
                    rec.violation('C14:%s:%s with a loader producing Decimal values' % (vkind, 'conforming call refused' if accept else 'non-conforming call not refused with -32602'),
                                  dict(case, validator=vkind, disp=disp, params=params), expected='result' if accept else '-32602, not executed', observed=dict(response=resp, ran=len(log)))
                obs.append(ok)
    return tuple(obs)


def run_sharedargs(case, rec):
    """ONE JsonSchemaValidator object, two methods whose validate(...) arguments differ beyond the schema (one passes a format checker):
    in every order of calls each method is validated with ITS arguments"""
    import jsonschema as _js
    obs = []
    fmt_schema = {'type': 'object', 'properties': {'h': {'type': 'string', 'format': 'ipv4'}}, 'required': ['h']}
    for disp in ('sync', 'async'):
        for order in itertools.permutations(('strict-bad', 'strict-ok', 'lenient-bad', 'lenient-ok'), 3):
            v = vjs.JsonSchemaValidator()
            log = []
            ns = {'_log': log}
            pre = 'async ' if disp == 'async' else ''
            exec('%sdef strict(h):\n    _log.append(("strict", h))\n    return h\n%sdef lenient(h):\n    _log.append(("lenient", h))\n    return h\n' % (pre, pre), ns)
            d = pjrpc.server.AsyncDispatcher() if disp == 'async' else pjrpc.server.Dispatcher()
            d.add(v.validate(schema=fmt_schema, format_checker=_js.FormatChecker())(ns['strict']), name='strict')
            d.add(v.validate(schema=dict(fmt_schema))(ns['lenient']), name='lenient')
            for step in order:
                method, arg = step.split('-')[0], ('1.2.3.4' if step.endswith('ok') else 'not-an-ip')
                del log[:]
                try:
                    resp = json.loads(dispatch(d, disp == 'async', json.dumps({'jsonrpc': '2.0', 'id': 1, 'method': method, 'params': [arg]}))[0])
                except Exception as e:   # noqa
                    resp = {'raised': repr(e)[:200]}
                rec.transitions += 1
                accept = step != 'strict-bad'
                code = resp.get('error', {}).get('code') if isinstance(resp.get('error'), dict) else None
                ok = (resp.get('result') == arg and len(log) == 1) if accept else (code == -32602 and not log)
                if not ok:
                    rec.violation('C14:jsonschema:methods sharing one validator object are not validated with their own validate() arguments (%s)' % ('conforming call refused' if accept else 'non-conforming call executed'),
                                  dict(case, disp=disp, order=list(order), step=step), expected='result' if accept else -32602, observed=resp)
                    break
                obs.append(ok)
    return tuple(obs)


def run_defaultschema(case, rec):
    """the schema is given to the VALIDATOR (JsonSchemaValidator(schema=S)) and the methods are decorated bare; a per-method schema overrides it"""
    obs = []
    S = {'type': 'object', 'properties': {'a': {'type': 'integer', 'maximum': 5}}, 'required': ['a']}
    for disp in ('sync', 'async'):
        v = vjs.JsonSchemaValidator(schema=S)
        log = []
        ns = {'_log': log}
        pre = 'async ' if disp == 'async' else ''
        exec('%sdef bare(a, b=1):\n    _log.append(("bare", a, b))\n    return a\n%sdef own(a, b=1):\n    _log.append(("own", a, b))\n    return a\n' % (pre, pre), ns)
        d = pjrpc.server.AsyncDispatcher() if disp == 'async' else pjrpc.server.Dispatcher()
        d.add(v.validate(ns['bare']), name='bare')
        d.add(v.validate(schema={'type': 'object', 'properties': {'a': {'type': 'string'}}})(ns['own']), name='own')
        for method, params, accept in (('bare', [3], True), ('bare', [7], False), ('bare', ['x'], False), ('bare', {'a': 5, 'b': 2}, True), ('bare', {'b': 2}, False),
                                       ('own', ['x'], True), ('own', [3], False), ('bare', [6], False), ('bare', [0], True)):
            del log[:]
            try:
                resp = json.loads(dispatch(d, disp == 'async', json.dumps({'jsonrpc': '2.0', 'id': 1, 'method': method, 'params': params}))[0])
            except Exception as e:   # noqa
                resp = {'raised': repr(e)[:200]}
            rec.transitions += 1
            code = resp.get('error', {}).get('code') if isinstance(resp.get('error'), dict) else None
            ok = ('result' in resp and len(log) == 1) if accept else (code == -32602 and not log)
            if not ok:
                rec.violation('C14:jsonschema:schema configured on the validator object:%s' % ('conforming call refused' if accept else 'non-conforming call not refused with -32602 (%s)' % ('executed' if log else 'code %s' % code)),
                              dict(case, disp=disp, method=method, params=params), expected='result' if accept else -32602, observed=resp)
            obs.append(ok)
    return tuple(obs)


def gen_cases(ctx):
    yield dict(part='defaultschema')
    yield dict(part='loader')
    yield dict(part='sharedargs')
    yield from gen_multi(ctx)
    yield from gen_ctx(ctx)
    yield from gen_pd(ctx)
    yield from gen_js(ctx)


def run_case(case, rec):
    from mc.core import Recorder
    r = Recorder()
    obs = {'js': run_js, 'ctx': run_ctx, 'pd': run_pd, 'multi': run_multi, 'viewpred': run_viewpred, 'samename': run_samename, 'eqsig': run_eqsig, 'noargs': run_noargs, 'variadic': run_variadic, 'twoschemas': run_twoschemas, 'loader': run_loader, 'sharedargs': run_sharedargs, 'defaultschema': run_defaultschema}[case['part']](case, r)
    r.states += 1
    r.traces += 1
    r.nontrivial_n += 1
    r.counters['programs ' + case['part']] += 1
    rec.merge(r)
    return obs


def run(ctx):
    ctx.rule = ('E1: jsonschema = %d signatures (<= %d params, pk/ko, defaults) x per-parameter fragments %r x required subsets x '
                'additionalProperties x exclusion predicate, inputs = all positional tuples and named mappings over a %d-value '
                'alphabet (+ unknown / excluded names); pydantic = %d annotations (1 and 2 parameters) x coerce on/off x %d values, '
                'positional and named. state = one validated program with all its inputs, both dispatchers'
                % (len(js_signatures(ctx.pick(2, 3))), ctx.pick(2, 3), sorted(FRAGS), len(VALUES), len(ANNS), len(PVALUES)))
    ctx.assumptions += ['the schema is evaluated on the explicitly passed arguments (defaults are not validated)',
                        'pydantic.TypeAdapter (lax mode) is the oracle for single values; JSON-Schema keywords outside the fragment language are not covered']
    ctx.run_cases('C14', lambda: gen_cases(ctx), run_case, recheck_every=499)
    oc = ctx.rec.outcomes
    ctx.guard('accepting and refusing runs for both validators', all(oc.get(k, 0) > 50 for k in
                                                                    ('js:accept:ok', 'js:nonconforming:ok', 'js:nobind:ok', 'pd:accept:ok', 'pd:nonconforming:ok', 'pd:nobind:ok')), dict(oc))


def replay(doc):
    from mc.core import Recorder, jdump
    rec = Recorder()
    c = doc['case']
    case = {k: c[k] for k in ('part', 'sig', 'frags', 'required', 'addl', 'excluded', 'anns', 'coerce', 'validator', 'first', 'disp', 'ann', 'order', 'view_context') if k in c}
    run_case(case, rec)
    vs = [v for v in rec.violations if v['case'].get('input') == c.get('input') and v['case']['disp'] == c['disp']] or rec.violations
    for v in vs[:5]:
        print('VIOLATION-REPLAY signature=%s\n  case=%s\n  expected=%s\n  observed=%s' % (
            v['signature'], jdump(v['case'])[:400], jdump(v['expected'])[:300], jdump(v['observed'])[:300]))
    print('replayed: %d violation(s)' % len(vs))
    return 1 if vs else 0
