"""
C11 - the synchronous and asynchronous halves behave identically.
Mode E1/E3 as a lock-step product of the twins (a differential oracle, no hand-written expectation):
 * Dispatcher vs AsyncDispatcher (coroutine methods) vs AsyncDispatcher (plain functions) on the corpora of C01-C03 and on
   the middleware / error-handler stacks of C12: same response document, codes, executions, event logs;
 * AbstractClient vs AbstractAsyncClient on the transport scripts of C08 (adversarial responses), C09 (complete retry choice
   trees, backoff schedules, placements), C19 (tracer trees) and the notations of C07: same request documents, results,
   exceptions, sleep sequences and tracer events.
"""
import itertools
import json

from mc.core import Env, Recorder, explore_choices
from mc.harness import clientrun as cr
from mc.harness import methods
from mc.harness.server import Sys

from . import c01, c02, c03, c07, c08, c09, c12, c19
from .common_server import obs_key, observe


def gen_cases(ctx):
    # --- dispatcher twins on texts
    seen = set()
    for case in itertools.chain(c01.g3(ctx), c01.g2(ctx)):
        if case['disp'] == 'sync':
            k = (case['mbs'], case['text'])
            if case['text'].count('[') + case['text'].count('{') > 400:
                # nesting near the interpreter's recursion limits: where exactly the loader gives up depends on the number of
                # stack frames below it, which legitimately differs between the two dispatchers (C01 / C03 cover these texts)
                continue
            if k not in seen:
                seen.add(k)
                yield dict(part='text', table='c01', mbs=case['mbs'], text=case['text'])
    for n in range(0, ctx.pick(3, 4) + 1):
        for toks in itertools.product(c01.TOKENS, repeat=n):
            yield dict(part='text', table='c01', mbs=None, text=''.join(toks))
    for case in c02.gen_cases(ctx):
        if case['disp'] == 'sync' and 'doc' in case:
            yield dict(part='text', table='std', mbs=case['mbs'], text=json.dumps(case['doc']))
    # the same singles and short batches served by dispatchers whose json_dumper does not use the proposed encoder class (it renders
    # unknown objects by type name): what the two halves hand to the dumper must be the same kind of data
    for case in c02.gen_cases(ctx):
        if case['disp'] == 'sync' and 'doc' in case and case['part'] in ('single', 'a', 'h') and (not isinstance(case['doc'], list) or len(case['doc']) <= 2):
            yield dict(part='text', table='std', mbs=case['mbs'], text=json.dumps(case['doc']), plain=True)
    for case in c03.gen_failures(ctx):
        if case['disp'] == 'sync':
            yield dict(part='failure', beh=case['beh'], place=case['place'])
    # --- dispatcher twins on middleware / handler stacks
    for case in c12.gen_cases(ctx):
        if ctx.quick and len(case['stack']) > 2:
            continue          # quick: stacks of <= 2 middlewares in the twin comparison (C12 itself goes to 4)
        if case['disp'] == 'sync':
            yield dict(part='stack', stack=case['stack'], table=case['table'], request=case['request'])
    # --- client twins
    for case in c09.gen_cases(ctx):
        if case.get('kind') == 'sync' and case.get('part') != 'churn':
            yield dict(part='retry', cfg=case)
    for case in c19.gen_cases(ctx):
        if case.get('kind') == 'sync' and case.get('part') != 'badtracer':
            yield dict(part='tracer', cfg=case)
    for case in c08.gen_cases(ctx):
        if ctx.quick and case.get('part') == 'batch' and case.get('n', 0) >= 3 and len(case.get('entries', ())) >= 3 and 'junk' not in case:
            continue          # quick: the largest response arrays are left to C08 itself
        if case.get('kind') == 'sync':
            yield dict(part='match', case=case)
    for first in ('add', 'notify', 'getitem'):
        for second in ('add', 'dunder', 'proxy', 'getitem', 'notify', 'none'):
            for outcome1 in ('ok', 'error', 'exception'):
                for strict in (True, False):
                    yield dict(part='reuse', first=first, second=second, outcome1=outcome1, strict=strict)
    for case in c07.gen_cases(ctx):
        if tuple(case['pair']) == ('sync', 'sync') and case.get('idgen') in ('sequential', 'randint12'):
            yield dict(part='notation', case=case)
    for how in ('call', 'notify', 'send', 'batch'):
        for dumper in (False, True):
            yield dict(part='encoder', how=how, dumper=dumper)
    # --- the concrete client backends (requests / httpx sync = synchronous half, httpx async / aiohttp = asynchronous half)
    for kind in BK_KINDS:
        for status in BK_STATUS:
            for ct in range(len(BK_CTYPES)):
                for body in BK_BODIES:
                    for rfs in (True, False):
                        for strict in (True, False):
                            for dct in ((None, 'application/json-rpc') if (ct < 3 and body == 'valid' and status == 200) else (None,)):
                                yield dict(part='backend', kind=kind, status=status, ct=ct, body=body, rfs=rfs, strict=strict, dct=dct)


BK_KINDS = ('call', 'call-kw', 'notify', 'batch', 'batch-notify', 'send-headers', 'client-headers')
BK_STATUS = (200, 201, 404, 500)
BK_CTYPES = (None, 'application/json', 'application/json; charset=utf-8', 'application/json-rpc', 'application/jsonrequest',
             'text/html', 'text/plain; charset=utf-8', 'APPLICATION/JSON', 'application/json;charset=utf-8', ' application/json',
             # the reply declares another charset and its body really is encoded in it
             'application/json; charset=iso-8859-1')
BK_BODIES = ('valid', 'empty', 'error', 'not-json', 'wrong-id', 'non-ascii', 'not-response')

_SYS = {}


def plain_dumper(obj, cls=None, **kw):
    # a dumper of the application's own that ignores the encoder class it is offered
    return json.dumps(obj, default=lambda o: o.to_json() if hasattr(o, 'to_json') else {'py-object': type(o).__name__})


def three_systems(table_name, mbs, plain=False):
    k = (table_name, mbs, plain)
    if k not in _SYS:
        table = c01.TABLE if table_name == 'c01' else methods.STD_TABLE
        kw = dict(json_dumper=plain_dumper) if plain else {}
        _SYS[k] = [('sync', Sys('sync', table, max_batch_size=mbs, **kw)),
                   ('async', Sys('async', table, max_batch_size=mbs, coroutine_methods=True, **kw)),
                   ('async-plain', Sys('async', table, max_batch_size=mbs, coroutine_methods=False, **kw))]
        if table_name == 'c01':
            for _, s_ in _SYS[k]:
                c01.register_internal_failures(s_.d)
    return _SYS[k]


def compare_three(rec, case, systems, text, what):
    obs = [(name, obs_key(observe(s, text))) for name, s in systems]
    rec.transitions += 3
    base = obs[0][1]
    for name, o in obs[1:]:
        if o != base:
            field = ['raised', 'problem', 'response document', 'codes', 'executions'][[i for i in range(5) if o[i] != base[i]][0]]
            rec.violation('C11:dispatcher:%s differs between sync and %s (%s)' % (field, name, what), case, expected=dict(sync=base), observed={name: o})
            return 'differ'
    rec.outcomes['dispatcher twins agree'] += 1
    return base[2][:80]


def run_text(case, rec):
    return compare_three(rec, case, three_systems(case['table'], case['mbs'], bool(case.get('plain'))), case['text'], 'request corpus')


def run_failure(case, rec):
    beh = dict(case['beh'])
    table = dict(f=beh, ok=methods.STD_TABLE['ok'])
    systems = [('sync', Sys('sync', table)), ('async', Sys('async', table, coroutine_methods=True)),
               ('async-plain', Sys('async', table, coroutine_methods=False))]
    return compare_three(rec, case, systems, json.dumps(c03.fail_doc(case['place'])), 'failure table')


def run_stack(case, rec):
    from mc.harness.server import parse_return
    from mc.vloop import VLoop
    out = []
    rq = case['request']
    disps = ('sync', 'async', 'async-seq') if isinstance(c12.REQUESTS.get(rq), list) else ('sync', 'async')
    for disp in disps:
        events = []
        mbs = 1 if rq == 'oversize' else None
        d, log, table = c12.build(disp, tuple(case['stack']), case['table'], events, mbs=mbs)
        text = '{"jsonrpc": ' if rq == 'unparsable' else json.dumps(c12.REQUESTS[rq])
        try:
            if disp != 'sync':
                loop = VLoop()
                try:
                    r = loop.run(d.dispatch(text, context=c12.CTX))
                finally:
                    loop.close()
            else:
                r = d.dispatch(text, context=c12.CTX)
            r = (json.loads(r[0]), r[1]) if r else None
        except Exception as e:   # noqa
            r = 'raised %s' % type(e).__name__
        rec.transitions += 1
        out.append((json.dumps(r, sort_keys=True), repr(events), repr(log)))
    for name, o in zip(disps[1:], out[1:]):
        if out[0] != o:
            field = ['response', 'middleware / handler events', 'executions'][[i for i in range(3) if out[0][i] != o[i]][0]]
            rec.violation('C11:dispatcher:%s differ between sync and %s (middleware / handler stacks)' % (
                field, 'async' if name == 'async' else 'async with concurrent_batch=False'), case, expected=dict(sync=out[0]), observed={name: o})
            return 'differ'
    rec.outcomes['stack twins agree'] += 1
    return out[0][0][:80]


def norm_summary(s):
    """summaries of the two halves are compared after renaming what legitimately differs by construction"""
    txt = repr(s)
    return txt.replace('CancelledError', 'BASE').replace('KeyboardInterrupt', 'BASE')


def run_client_tree(case, rec, what):
    cfg = dict(case['cfg'])
    acfg = dict(cfg, kind='async')
    leaves = 0
    for choices, obs in explore_choices(lambda env: cr.execute(cfg, env), max_exec=300000):
        aobs = cr.execute(acfg, Env(tuple(choices)))
        leaves += 1
        rec.transitions += 2
        s, a = cr.summarize(obs), cr.summarize(aobs)
        if norm_summary(s) != norm_summary(a):
            names = ['attempt outcomes', 'request documents', 'sleep sequence', 'result / exception', 'tracer events', 'later requests of the same client']
            idx = [i for i in range(min(len(s), len(a))) if norm_summary(s[i]) != norm_summary(a[i])][0]
            rec.violation('C11:client:%s differ between sync and async (%s)' % (names[idx], what), dict(cfg=cfg, choices=list(choices)),
                          expected=dict(sync=s[idx]), observed={'async': a[idx]})
    rec.traces += leaves
    rec.outcomes['client trees compared'] += 1
    return leaves


def run_match(case, rec):
    out = []
    for kind in ('sync', 'async'):
        r = Recorder()
        o = c08.run_case(dict(case['case'], kind=kind), r)
        rec.transitions += 1
        out.append((o, sorted(r.viol_count)))
    if repr(out[0]) != repr(out[1]):
        rec.violation('C11:client:response matching differs between sync and async', case, expected=dict(sync=out[0]), observed={'async': out[1]})
    rec.outcomes['matching twins agree'] += 1
    return repr(out[0])[:80]


def run_notation(case, rec):
    out = []
    for pair in (('sync', 'sync'), ('async', 'sync')):
        r = Recorder()
        o = c07.run_case(dict(case['case'], pair=pair), r)
        rec.transitions += 1
        out.append((o, sorted(r.viol_count)))
    if repr(out[0]) != repr(out[1]):
        rec.violation('C11:client:call notations behave differently in the sync and the async client', case, expected=dict(sync=out[0]), observed={'async': out[1]})
    rec.outcomes['notation twins agree'] += 1
    return repr(out[0])[:80]


def run_encoder(case, rec):
    """a configured json_encoder that serialises the request objects ITSELF (adds a member) and a configured json_dumper: both
    halves must hand them the same thing - the request object - so the documents on the wire are the same"""
    import json as _json
    import pjrpc
    from pjrpc.common import BatchRequest, Request
    from mc.harness.client import make_client
    from mc.harness.client import run as drive
    out = []
    for kind in ('sync', 'async'):
        seen_types = []

        class AuthEncoder(pjrpc.JSONEncoder):
            def default(self, o):
                if isinstance(o, (Request, BatchRequest)):
                    seen_types.append(type(o).__name__)
                    d = o.to_json()
                    if isinstance(d, dict):
                        d['auth'] = 'token'
                    return d
                return super().default(o)

        def dumper(obj, **kw):
            seen_types.append('dumper:' + type(obj).__name__)
            return _json.dumps(obj, **kw)

        def responder(text, is_notif, kw):
            doc = _json.loads(text)
            if isinstance(doc, list):
                res = [dict(jsonrpc='2.0', id=e['id'], result=1) for e in doc if 'id' in e]
                return _json.dumps(res) if res else None
            return _json.dumps(dict(jsonrpc='2.0', id=doc['id'], result=1)) if 'id' in doc else None
        kw = dict(json_encoder=AuthEncoder)
        if case['dumper']:
            kw['json_dumper'] = dumper
        client = make_client(kind, responder, **kw)
        how = case['how']
        if how == 'call':
            r = drive(kind, lambda: client.call('m', 1))
        elif how == 'notify':
            r = drive(kind, lambda: client.notify('m', 1))
        elif how == 'send':
            r = drive(kind, lambda: client.send(Request('m', [1], id=5)))
        else:
            r = drive(kind, lambda: client.batch.add('a', 1).notify('b', 2).call())
        rec.transitions += 1
        out.append(([t for t, _, _ in client.sent], seen_types, r[0], repr(r[1]) if r[0] == 'ok' else type(r[1]).__name__))
    if out[0] != out[1]:
        field = ['request documents', 'what the configured encoder / dumper was given', 'outcome', 'result'][[i for i in range(4) if out[0][i] != out[1][i]][0]]
        rec.violation('C11:client:%s differ between sync and async with a configured json_encoder / json_dumper' % field, case, expected=dict(sync=out[0]), observed={'async': out[1]})
    rec.outcomes['encoder twins agree'] += 1
    return repr(out[0])[:120]


def run_reuse(case, rec):
    """one batch wrapper object used for two consecutive deliveries: both halves must keep / forget the same calls"""
    from mc.harness.client import make_client
    from mc.harness.client import run as drive
    out = []
    for kind in ('sync', 'async'):
        n = [0]

        def responder(text, is_notif, kw):
            n[0] += 1
            doc = json.loads(text)
            if n[0] == 1 and case['outcome1'] == 'exception':
                raise ConnectionError('first delivery fails')
            res = []
            for e in doc:
                if 'id' in e:
                    if n[0] == 1 and case['outcome1'] == 'error':
                        res.append({'jsonrpc': '2.0', 'id': e['id'], 'error': {'code': 5, 'message': 'm'}})
                    else:
                        res.append({'jsonrpc': '2.0', 'id': e['id'], 'result': [e['method'], e.get('params')]})
            return json.dumps(res) if res else None
        client = make_client(kind, responder, strict=case['strict'])
        b = client.batch

        def step(how, tag):
            if how == 'add':
                b.add('m_' + tag, tag)
                return b.call
            if how == 'dunder':
                b('m_' + tag, tag)
                return b.call
            if how == 'proxy':
                p = b.proxy
                getattr(p, 'm_' + tag)(tag)
                return p.call
            if how == 'notify':
                b.notify('m_' + tag, tag)
                return b.call
            if how == 'getitem':
                return lambda: b[[('m_' + tag, tag)]]
            return b.call
        r1 = drive(kind, step(case['first'], 'one'))
        r2 = drive(kind, step(case['second'], 'two'))
        rec.transitions += 2

        def show(r):
            return (r[0], repr(r[1]) if r[0] == 'ok' else '%s: %s' % (type(r[1]).__name__, r[1]))
        out.append(([t for t, _, _ in client.sent], show(r1), show(r2)))
    if out[0] != out[1]:
        field = ['request documents', 'first result', 'second result'][[i for i in range(3) if out[0][i] != out[1][i]][0]]
        rec.violation('C11:client:%s differ between sync and async when a batch wrapper is used twice' % field, case,
                      expected=dict(sync=out[0]), observed={'async': out[1]})
    rec.outcomes['reuse twins agree'] += 1
    return repr(out[0])[:120]


def bk_body(kind, doc, body):
    """the HTTP body the scripted server answers with"""
    elems = doc if isinstance(doc, list) else [doc]
    calls = [e for e in elems if 'id' in e]
    if body == 'empty':
        return b''
    if body == 'not-json':
        return b'<html>gateway timeout</html>'
    if body == 'not-response':
        return b'{"status": "ok"}'

    def answer(e):
        if body == 'error':
            return {'jsonrpc': '2.0', 'id': e['id'], 'error': {'code': 4321, 'message': 'app', 'data': [e['method']]}}
        if body == 'wrong-id':
            return {'jsonrpc': '2.0', 'id': e['id'] + 100, 'result': 'other'}
        if body == 'non-ascii':
            return {'jsonrpc': '2.0', 'id': e['id'], 'result': '\u00e9\u20ac-' + e['method']}
        return {'jsonrpc': '2.0', 'id': e['id'], 'result': [e['method'], e.get('params')]}
    if not calls:
        # what a server that answers notifications anyway (or a proxy that always sends a body) returns
        out = {'jsonrpc': '2.0', 'id': None, 'result': 'unexpected'}
    elif isinstance(doc, list):
        out = [answer(e) for e in calls]
    else:
        out = answer(doc)
    return json.dumps(out, ensure_ascii=(body != 'non-ascii')).encode('utf-8')


def bk_expected(case, n_calls):
    """what the statements of C07 / C08 fix independently of the backend, or None where only agreement is required"""
    status, ct, body = case['status'], BK_CTYPES[case['ct']], case['body']
    if status >= 400 and case['rfs']:
        return 'http-error'
    if n_calls == 0:
        return "ok None"            # notifications return nothing and raise nothing
    media = (ct or '').split(';')[0]
    if body != 'empty' and media not in ('application/json', 'application/json-rpc'):
        return 'exc DeserializationError'
    if media in ('application/json', 'application/json-rpc') and (ct or '') == (ct or '').strip():
        if body == 'valid':
            return 'value'
        if body == 'error':
            return 'exc JsonRpcError 4321'
        if body == 'wrong-id' and case['strict']:
            return 'exc IdentityError'
        if body == 'not-response':
            return 'exc DeserializationError'
    return None


def run_backend(case, rec):
    import pjrpc
    from pjrpc.common import Request
    from mc.harness.backends import ASYNC, BACKENDS, make_backend_client
    from mc.harness.client import run as drive
    kind = case['kind']
    out = {}
    old_dct = pjrpc.common.DEFAULT_CONTENT_TYPE
    if case['dct']:
        pjrpc.common.set_default_content_type(case['dct'])
    try:
        for name in BACKENDS:
            seen = []

            def handler(req):
                seen.append(req)
                doc = json.loads(req['body'].decode('utf-8'))
                ct = BK_CTYPES[case['ct']]
                payload = bk_body(kind, doc, case['body'])
                if ct and 'iso-8859-1' in ct:
                    payload = payload.decode('utf-8').replace('\u20ac', '\u00fc').encode('iso-8859-1')
                return case['status'], ([] if ct is None else [('Content-Type', ct)]), payload
            user_headers = {'X-Trace': 't1'}
            ckw = dict(raise_for_status=case['rfs'], strict=case['strict'])
            if kind == 'client-headers':
                ckw['request_args'] = dict(headers=user_headers)
            client = make_backend_client(name, handler, **ckw)
            if kind == 'call':
                thunk = lambda: client.call('m', 1, 'x')     # noqa
            elif kind == 'call-kw':
                thunk = lambda: client.call('m', a=1)        # noqa
            elif kind == 'notify':
                thunk = lambda: client.notify('m', 1)        # noqa
            elif kind == 'batch':
                thunk = lambda: client.batch.add('m', 1).notify('n', 2).add('k', b=3).call()      # noqa
            elif kind == 'batch-notify':
                thunk = lambda: client.batch.notify('n', 2).notify('n', 3).call()                  # noqa
            elif kind == 'send-headers':
                def thunk():
                    r = client.send(Request('m', [1], id=7), headers=user_headers)
                    if hasattr(r, '__await__'):
                        async def go():
                            return (await r).result
                        return go()
                    return r.result
            else:
                thunk = lambda: client.call('m', 1)          # noqa
            k, v = drive('async' if ASYNC[name] else 'sync', thunk)
            rec.transitions += 1
            if k == 'ok':
                o = 'ok %r' % (v,)
            elif type(v).__name__ in ('HTTPError', 'HTTPStatusError', 'ClientResponseError'):
                o = 'http-error'
            elif isinstance(v, pjrpc.exc.JsonRpcError):
                o = 'exc JsonRpcError %s' % v.code
            else:
                o = 'exc %s' % type(v).__name__
            wire_ = [(r['method'], r['headers'].get('content-type'), r['headers'].get('x-trace'), r['body']) for r in seen]
            out[name] = (o, wire_)
    finally:
        pjrpc.common.set_default_content_type(old_dct)
    base = out['requests']
    want_ct = case['dct'] or 'application/json'
    want_trace = 't1' if kind in ('send-headers', 'client-headers') else None
    for name, (o, w) in out.items():
        if len(w) != 1:
            rec.violation('C11:backend:%d HTTP requests for one send (%s)' % (len(w), name), case, expected=1, observed=w)
            return 'x'
        if w[0][0] != 'POST' or w[0][1] != want_ct or w[0][2] != want_trace:
            rec.violation('C11:backend:request not sent as POST with the default content type and the caller\'s headers (%s)' % name, case,
                          expected=('POST', want_ct, want_trace), observed=w[0][:3])
            return 'x'
        if w != base[1]:
            rec.violation('C11:backend:request documents differ between the requests backend and %s' % name, case, expected=base[1], observed=w)
            return 'x'
        if o != base[0]:
            rec.violation('C11:backend:outcome differs between the requests backend and %s' % name, case, expected=base[0], observed=o)
            return 'x'
    doc = json.loads(base[1][0][3].decode('utf-8'))
    n_calls = len([e for e in (doc if isinstance(doc, list) else [doc]) if 'id' in e])
    want = bk_expected(case, n_calls)
    got = base[0]
    if want == 'value':
        ok = got.startswith('ok ') and got != 'ok None'
    elif want is not None:
        ok = got == want
    else:
        ok = True
    if not ok:
        rec.violation('C11:backend:all backends agree on an outcome the statements exclude (%s expected)' % want, case, expected=want, observed=got)
    rec.outcomes['backend: ' + (want or 'agreement only')] += 1
    return got[:80]


def run_case(case, rec):
    r = Recorder()
    p = case['part']
    if p == 'backend':
        obs = run_backend(case, r)
    elif p == 'encoder':
        obs = run_encoder(case, r)
    elif p == 'text':
        obs = run_text(case, r)
    elif p == 'failure':
        obs = run_failure(case, r)
    elif p == 'stack':
        obs = run_stack(case, r)
    elif p == 'retry':
        obs = run_client_tree(case, r, 'retry')
    elif p == 'tracer':
        obs = run_client_tree(case, r, 'tracing')
    elif p == 'match':
        obs = run_match(case, r)
    elif p == 'reuse':
        obs = run_reuse(case, r)
    else:
        obs = run_notation(case, r)
    r.states += 1
    if p not in ('retry', 'tracer'):
        r.traces += 1
    r.nontrivial_n += 1
    r.counters['part ' + p] += 1
    rec.merge(r)
    return obs


def run(ctx):
    ctx.rule = ('lock-step product of the twins over the generators of the other checks: dispatcher texts (C01 value shapes + lexical '
                'edges + token strings <= %d, C02 documents, C03 failure table) on Dispatcher / AsyncDispatcher with coroutines / '
                'AsyncDispatcher with plain functions; C12 middleware x handler x request configurations; client: every leaf of the C09 '
                'and C19 choice trees replayed on the async client with the same choices, every C08 response document, C07 notations. '
                '(quick tier: C12 stacks of <= 2 middlewares and C08 response arrays of < 3 entries for 3 calls only.) state = one (input, configuration) pair of twins; every state is non-trivial (a comparison)' % ctx.pick(3, 4))
    ctx.assumptions += ['KeyboardInterrupt (sync) and CancelledError (async) stand for the same BaseException outcome']
    ctx.run_cases('C11', lambda: gen_cases(ctx), run_case, recheck_every=2003)
    c = ctx.rec.counters
    ctx.guard('all twin pairs exercised', all(c.get('part ' + p, 0) > 0 for p in ('text', 'failure', 'stack', 'retry', 'tracer', 'match', 'notation', 'reuse', 'backend')), dict(c))


def replay(doc):
    from mc.core import jdump
    rec = Recorder()
    c = doc['case']
    if 'cfg' in c and 'choices' in c:
        cfg = c['cfg']
        obs = cr.execute(cfg, Env(tuple(c['choices'])))
        aobs = cr.execute(dict(cfg, kind='async'), Env(tuple(c['choices'])))
        s, a = cr.summarize(obs), cr.summarize(aobs)
        print('sync :', s)
        print('async:', a)
        bad = norm_summary(s) != norm_summary(a)
        print('replayed: %d violation(s)' % (1 if bad else 0))
        return 1 if bad else 0
    run_case(c, rec)
    for v in rec.violations[:5]:
        print('VIOLATION-REPLAY signature=%s\n  expected=%s\n  observed=%s' % (v['signature'], jdump(v['expected'])[:400], jdump(v['observed'])[:400]))
    print('replayed: %d violation(s)' % len(rec.violations))
    return 1 if rec.violations else 0
