"""
C07 - calling through client and server equals calling the function, in any notation.
Mode E1 + E3: a real client (sync / async) whose transport forwards to a real dispatcher (sync / async); all call
notations x id generators (random generators are environment choice points) x strict x argument shapes x method
behaviours x batch compositions.  Oracle: the registered python function called directly (+ JSON normalisation),
S2 on the request document, interchangeability of notations.
"""
import itertools
import json
import random
import uuid

import pjrpc
import pjrpc.server
from pjrpc.common import BatchRequest, Request, generators
from pjrpc.common.exceptions import IdentityError, JsonRpcError, ServerError

from mc.core import HarnessError, explore_choices
from mc.harness.client import make_client
from mc.harness.methods import MARK, _pause, registered_error
from mc.refmodel import wire
from mc.refmodel.server import typed_eq

from .common_server import norm
from mc.vloop import VLoop

class Hier07(JsonRpcError):
    """documented pattern: the client is given a base class that resolves error codes within its own hierarchy"""
    @classmethod
    def get_error_cls(cls, code, default):
        return next(iter((c for c in cls.__subclasses__() if getattr(c, 'code', None) == code)), default)


class Denied07(Hier07):
    code = 7301
    message = 'denied'


class _OtherHier07(JsonRpcError):
    pass


class _OtherDenied07(_OtherHier07):     # the same code in an unrelated hierarchy, registered later process-wide
    code = 7301
    message = 'other'


VALS = [None, 0, 'x', [1, 'a'], {'k': None}, 1.5, {}, '', False,
        # a dict whose keys are of several JSON-legal python types (a histogram with a total): travels as {"1": .., "b": ..}
        {1: 'one', 'b': [2]}]
ARGSHAPES = ['none', 'p1', 'p2', 'n1', 'n2']


# ---- environment-owned randomness -----------------------------------------------------------------------
class Rnd:
    env = None
    counter = 0
    drawn = []          # every value the (environment-owned) random source has produced in the current execution


def _randint(a, b):
    if Rnd.env is not None and b - a <= 3:
        v = a + Rnd.env.choose(('randint', a, b), b - a + 1)
        Rnd.drawn.append(v)
        return v
    Rnd.counter += 1
    return a + (Rnd.counter * 7919) % (b - a + 1)


def _choice(seq):
    if Rnd.env is not None and len(seq) <= 3:
        v = seq[Rnd.env.choose(('choice', len(seq)), len(seq))]
        Rnd.drawn.append(v)
        return v
    Rnd.counter += 1
    return seq[(Rnd.counter * 31) % len(seq)]


def _uuid4():
    Rnd.counter += 1
    return uuid.UUID(int=Rnd.counter)


random.randint = _randint
random.choice = _choice
uuid.uuid4 = _uuid4

IDGENS = {
    'sequential': lambda: generators.sequential,
    'sequential0': lambda: (lambda: generators.sequential(start=0, step=5)),        # the first id is 0 (falsy)
    'randint12': lambda: (lambda: generators.randint(1, 2)),
    'randint1M': lambda: (lambda: generators.randint(1, 10 ** 6)),
    'random1ab': lambda: (lambda: generators.random(1, 'ab')),
    'random': lambda: generators.random,
    'uuid': lambda: generators.uuid,
}


# ---- the served functions (also the oracle: they are called directly) -------------------------------------
class Served:
    def __init__(self):
        self.log = []
        TErr = registered_error(7001)
        log = self.log

        def echo(a='da', b='db'):
            log.append(('echo', a, b))
            return [a, {'b': b}]

        def terr(a='da', b='db'):
            log.append(('terr', a, b))
            raise TErr(7001, 'typed', data=[a, b])

        def ferr(a='da', b='db'):
            # a typed error whose data is the first argument: null, 0, '' ... travel as data too
            log.append(('ferr', a, b))
            raise TErr(7001, 'typed', data=a)

        def herr(a='da', b='db'):
            log.append(('herr', a, b))
            raise Denied07(data=[a])

        def lerr(a='da', b='db'):
            # a library exception that is not a protocol error (e.g. raised while the method talks to another service)
            log.append(('lerr', a, b))
            raise pjrpc.exceptions.DeserializationError(MARK)

        def hist(a='da', b='db'):
            # the function itself builds a dict with keys of several types
            log.append(('hist', a, b))
            return {1: a, 2.5: [b], None: 0, 'total': b}

        def uerr(a='da', b='db'):
            log.append(('uerr', a, b))
            raise JsonRpcError(4444, 'untyped')

        def boom(a='da', b='db'):
            log.append(('boom', a, b))
            raise ValueError(MARK)

        import functools

        def audited(f):
            # one ordinary decorator applied to several methods: all wrappers share one code object, each has its own signature
            @functools.wraps(f)
            def wrapper(*args, **kwargs):
                return f(*args, **kwargs)
            return wrapper

        @audited
        def deca(a='da', b='db'):
            log.append(('deca', a, b))
            return ['deca', a, {'b': b}]

        @audited
        def decb(b='db', a='da'):
            log.append(('decb', a, b))
            return ['decb', a, {'b': b}]

        class Tally(pjrpc.server.ViewMixin):
            """a class based view registered WITHOUT a context that keeps per-request state on self"""
            def __init__(self):
                super().__init__()
                self.seen = []

            def bump(self, a='da', b='db'):
                self.seen.append(a)
                log.append(('bump', a, b))
                return [len(self.seen), a, {'b': b}]
        self.view = Tally

        def bump(a='da', b='db'):
            return Tally().bump(a, b)       # the oracle: a fresh view object serves every request

        self.funcs = dict(hist=hist, echo=echo, terr=terr, ferr=ferr, herr=herr, uerr=uerr, lerr=lerr, boom=boom, _echo=echo, __x=echo,
                          deca=deca, decb=decb, bump=bump)

    def register(self, disp, is_async):
        import functools
        disp.registry.view(self.view)
        for name, f in self.funcs.items():
            if name == 'bump':
                continue          # served by the view
            if is_async:
                def mk(f, swapped=False):
                    async def co(a='da', b='db'):
                        r = f(a=a, b=b)
                        await _pause()      # later started calls complete earlier (reverse completion order)
                        return r

                    async def co_swapped(b='db', a='da'):
                        r = f(a=a, b=b)
                        await _pause()
                        return r
                    return co_swapped if swapped else co
                co = mk(f, swapped=(name == 'decb'))
                if name in ('echo', 'uerr'):
                    # a plain function that RETURNS a coroutine (an async method behind an ordinary decorator)
                    def wrap(co):
                        @functools.wraps(co)
                        def plain(*a, **kw):
                            return co(*a, **kw)
                        return plain
                    co = wrap(co)
                elif name in ('ferr', '_echo'):
                    # a callable object whose __call__ is a coroutine function
                    class Obj:
                        def __init__(self, co):
                            self.co = co

                        async def __call__(self, a='da', b='db'):
                            return await self.co(a=a, b=b)
                    co = Obj(co)
                disp.add(co, name=name)
            elif name in ('terr', 'boom'):
                # a plain function served by a synchronous dispatcher through functools.partial / a callable object
                class SObj:
                    def __init__(self, f):
                        self.f = f

                    def __call__(self, a='da', b='db'):
                        return self.f(a=a, b=b)
                disp.add(SObj(f), name=name)
            else:
                disp.add(f, name=name)
        # both decorated methods have been served once before the observed call (whatever the library keeps per method is warm)
        for name in ('deca', 'decb', 'bump'):
            text = '{"jsonrpc":"2.0","method":"%s","params":["warm"],"id":0}' % name
            if is_async:
                loop = VLoop()
                try:
                    loop.run(disp.dispatch(text))
                finally:
                    loop.close()
            else:
                disp.dispatch(text)
        del self.log[:]


def direct(served, method, args, kwargs):
    """the oracle: a direct python call -> ('ok', normalised value) | ('rpc', cls, code, message, data) | ('server',)"""
    n0 = len(served.log)
    args, kwargs = json.loads(json.dumps(list(args))), json.loads(json.dumps(kwargs))      # arguments arrive JSON-normalised
    try:
        v = served.funcs[method](*args, **kwargs)
        out = ('ok', json.loads(json.dumps(v)))
    except JsonRpcError as e:
        reg = type(e).__mro__[0] if type(e) is not JsonRpcError else JsonRpcError
        out = ('rpc', reg.__name__, e.code, e.message, e.data)
    except Exception:
        out = ('rpc', 'ServerError', -32000, 'Server error', pjrpc.common.UNSET)
    entry = served.log[n0:]
    del served.log[n0:]
    return out, entry


def args_for(shape, i):
    v, w = VALS[i % len(VALS)], VALS[(i + 2) % len(VALS)]
    return {'none': ((), {}), 'p1': ((v,), {}), 'p2': ((v, w), {}), 'n1': ((), {'a': v}), 'n2': ((), {'a': v, 'b': w})}[shape]


E2E_CLIENTS = ('requests', 'httpx', 'httpx-async', 'aiohttp')
E2E_SERVERS = ('flask', 'werkzeug', 'aiohttp')


def is_async_client(ckind):
    return ckind in ('async', 'httpx-async', 'aiohttp')


def build_e2e(pair, served, idgen, strict, hier=False):
    """a real backend client -> (in-process HTTP) -> a real web-framework integration -> its dispatcher"""
    from mc.harness.backends import make_backend_client
    from mc.harness.http import Integration
    ckind, skind = pair
    integ = Integration(skind, '/api')
    served.register(integ.dispatcher, skind == 'aiohttp')
    if skind in ('flask', 'aiohttp'):
        # the application also has other JSON-RPC endpoints (added after the main one) that serve nothing
        integ.rpc.add_endpoint('/v2')
        integ.rpc.add_endpoint('/zz-last')
    sent = []

    def handler(req):
        sent.append((req['body'].decode('utf-8'), None, dict(method=req['method'], content_type=req['headers'].get('content-type'))))
        reply = integ.post(req['body'], req['headers'].get('content-type'))
        if reply.raised:
            raise HarnessError('the %s integration raised %s' % (skind, reply.raised))
        headers = [] if reply.raw_content_type is None else [('Content-Type', reply.raw_content_type)]
        return reply.status, headers, reply.body
    client = make_backend_client(ckind, handler, id_gen_impl=IDGENS[idgen](), strict=strict, **({'error_cls': Hier07} if hier else {}))
    client.sent = sent
    return client


def build_system(pair, served, idgen, strict, hier=False):
    ckind, dkind = pair
    if ckind in E2E_CLIENTS:
        return build_e2e(pair, served, idgen, strict, hier)
    disp = pjrpc.server.AsyncDispatcher() if dkind == 'async' else pjrpc.server.Dispatcher()
    served.register(disp, dkind == 'async')

    def to_text(r):
        return None if r is None else r[0]

    if dkind == 'sync':
        def responder(text, is_notif, kw):
            return to_text(disp.dispatch(text))
    elif ckind == 'async':
        def responder(text, is_notif, kw):
            async def go():
                return to_text(await disp.dispatch(text))
            return go()
    else:
        def responder(text, is_notif, kw):
            loop = VLoop()
            try:
                return to_text(loop.run(disp.dispatch(text)))
            finally:
                loop.close()
    extra = {}
    if hier == 'reqcls':
        extra['request_class'] = TokenRequest
    elif hier:
        extra['error_cls'] = Hier07
    return make_client(ckind, responder, id_gen_impl=IDGENS[idgen](), strict=strict, **extra)


class TokenRequest(Request):
    """the application's request class: every request object it puts on the wire carries an extension member"""
    def to_json(self):
        return dict(super().to_json(), token='t0k3n')


def run_reqcls(case, rec):
    """a client configured with its own request_class: every notation that lets the client build the request (call, dunder, proxy, notify,
    and the batch notations add / dunder / proxy / getitem with and without notifications) puts objects of THAT class on the wire"""
    pair = tuple(case['pair'])
    obs = []
    for notation in ['call', 'dunder', 'proxy', 'notify']:
        served = Served()
        client = build_system(pair, served, 'sequential', True, hier='reqcls')
        out = classify(drive(pair[0], single_thunk(client, notation, 'echo', (1,), {}, None)))
        rec.transitions += 1
        docs = [json.loads(t[0]) for t in client.sent]
        objs = [o for d in docs for o in (d if isinstance(d, list) else [d])]
        ok = bool(objs) and all(o.get('token') == 't0k3n' for o in objs) and len(served.log) == 1 and out[0] == 'ok'
        if not ok:
            rec.violation('C07:single:the configured request class is not used for a %s' % ('notification' if notation == 'notify' else 'call'), dict(case, notation=notation),
                          expected='every request object built by TokenRequest', observed=dict(documents=docs, outcome=out, executed=len(served.log)))
        obs.append(ok)
    for notation in ['add', 'dunder', 'proxy', 'getitem', 'notify+getitem']:
        for elems in ([('echo', (1,), {}, True), ('echo', (2,), {}, False)], [('echo', (1,), {}, False), ('echo', (2,), {}, False)], [('echo', (1,), {}, True), ('echo', (2,), {}, True)]):
            if notation == 'getitem' and not all(c for _, _, _, c in elems):
                continue
            served = Served()
            client = build_system(pair, served, 'sequential', True, hier='reqcls')
            out = classify(drive(pair[0], lambda: batch_thunk(client, notation, elems)()))
            rec.transitions += 1
            docs = [json.loads(t[0]) for t in client.sent]
            objs = [o for d in docs for o in (d if isinstance(d, list) else [d])]
            ok = len(objs) == len(elems) and all(o.get('token') == 't0k3n' for o in objs) and len(served.log) == len(elems)
            if not ok:
                rec.violation('C07:batch:the configured request class is not used for every element of a batch', dict(case, notation=notation, elems=[list(e) for e in elems]),
                              expected='every request object built by TokenRequest', observed=dict(documents=docs, outcome=out, executed=len(served.log)))
            obs.append(ok)
    rec.nontrivial_n += 1
    return tuple(obs)


def drive(ckind, thunk):
    try:
        r = thunk()
        if is_async_client(ckind) and hasattr(r, '__await__'):
            loop = VLoop()
            try:
                r = loop.run(r)
            finally:
                loop.close()
        return ('ok', r)
    except BaseException as e:   # noqa
        return ('exc', e)


def classify(out):
    k, v = out
    if k == 'ok':
        return ('ok', v)
    if isinstance(v, JsonRpcError):
        return ('rpc', type(v).__name__, v.code, v.message, v.data)
    return ('raised', type(v).__name__, str(v)[:120])


# ---- request document checks (S2) -----------------------------------------------------------------------
def check_request_doc(text, calls):
    """calls: [(method, args, kwargs, is_call)] -> problem | None ; also returns doc modulo ids"""
    try:
        doc = json.loads(text)
    except ValueError:
        return 'request text is not JSON', None
    single = not isinstance(doc, list)
    elems = [doc] if single else doc
    if len(elems) != len(calls):
        return '%d request objects for %d calls' % (len(elems), len(calls)), None
    ids = []
    shape = []
    for e, (m, a, kw, is_call) in zip(elems, calls):
        if wire.request_object_class(e) != 'valid':
            return 'not a valid request object: %r' % (e,), None
        if e['method'] != m:
            return 'method %r instead of %r' % (e['method'], m), None
        want = json.loads(json.dumps(list(a) if a else (dict(kw) if kw else None)))
        got = e.get('params')
        if (got or None) != want or (want is not None and not typed_eq(got, want)):
            return 'params %r instead of %r' % (got, want), None
        if is_call:
            if 'id' not in e or e['id'] is None:
                return 'call without id', None
            ids.append(e['id'])
        elif 'id' in e:
            return 'notification carries an id', None
        shape.append((m, json.dumps(got, sort_keys=True), is_call))
    for i in range(len(ids)):
        for j in range(i):
            if typed_eq(ids[i], ids[j]):
                return 'duplicate ids %r in one document' % (ids[i],), None
    return None, (single, tuple(shape))


# ---- single calls --------------------------------------------------------------------------------------------
SINGLE_NOTATIONS = ['call', 'dunder', 'proxy', 'send', 'notify']


def single_thunk(client, notation, method, args, kwargs, served_ids):
    if notation == 'call':
        return lambda: client.call(method, *args, **kwargs)
    if notation == 'dunder':
        return lambda: client(method, *args, **kwargs)
    if notation == 'proxy':
        return lambda: getattr(client.proxy, method)(*args, **kwargs)
    if notation == 'notify':
        return lambda: client.notify(method, *args, **kwargs)
    req = Request(method, list(args) or dict(kwargs), id=next(client.id_gen_impl()))

    def send():
        r = client.send(req)
        if hasattr(r, '__await__'):
            async def go():
                return (await r).result
            return go()
        return r.result
    return send


def run_single(case, rec):
    pair = tuple(case['pair'])
    method, shape, vi = case['method'], case['shape'], case['vi']
    args, kwargs = args_for(shape, vi)
    results = {}
    docs = {}
    for notation in SINGLE_NOTATIONS:
        def once(env):
            Rnd.env, Rnd.counter = env, 0
            served = Served()
            want, want_log = direct(served, method, args, kwargs)
            client = build_system(pair, served, case['idgen'], case['strict'], hier=(method == 'herr'))
            try:
                out = drive(pair[0], single_thunk(client, notation, method, args, kwargs, None))
            finally:
                Rnd.env = None
            return served, client, want, want_log, classify(out)
        for choices, (served, client, want, want_log, got) in explore_choices(once, max_exec=2000):
            rec.transitions += 1
            c = dict(case, notation=notation, choices=list(choices))
            if case['idgen'] == 'uuid' and notation != 'notify':
                if got[0] == 'raised' and got[1] == 'TypeError':
                    rec.violation('C07:uuid generator yields ids the client cannot serialise', c, expected=want, observed=got)
                    continue
            if len(client.sent) != 1:
                rec.violation('C07:single:%d documents on the wire for one %s' % (len(client.sent), notation), c, expected=1, observed=got)
                continue
            p, docshape = check_request_doc(client.sent[0][0], [(method, args, kwargs, notation != 'notify')])
            if p:
                rec.violation('C07:single:request document:%s' % norm(p)[:60], c, expected='valid request', observed=p)
                continue
            if not single_log_ok(served.log, want_log):
                rec.violation('C07:single:function executed %d times / with other arguments' % len(served.log), c,
                              expected=want_log, observed=served.log)
                continue
            if notation == 'notify':
                if got != ('ok', None):
                    rec.violation('C07:single:notification returned or raised something', c, expected=('ok', None), observed=got)
                continue
            if not same_outcome(got, want):
                rec.violation('C07:single:outcome differs from the direct call (%s)' % want[0], c, expected=want, observed=got)
                continue
            results[notation] = got
            docs[notation] = docshape
            rec.nontrivial_n += 1
    vals = list(results.values())
    if any(not same_outcome(v, vals[0]) for v in vals[1:]) or len(set(docs.values())) > 1:
        rec.violation('C07:single:notations are not interchangeable', case, expected='same outcome and document', observed=[results, docs])
    return (sorted((k, repr(v)) for k, v in results.items()),)


def single_log_ok(log, want_log):
    return len(log) == len(want_log) and all(a[0] == b[0] and typed_eq(list(a[1:]), list(b[1:])) for a, b in zip(log, want_log))


def same_outcome(got, want):
    if got[0] != want[0]:
        return False
    if got[0] == 'ok':
        return typed_eq(got[1], want[1])
    if got[0] == 'rpc':
        gd, wd = got[4], want[4]
        unset = pjrpc.common.UNSET
        data_ok = (gd is unset and wd is unset) or (gd is not unset and wd is not unset and typed_eq(json.loads(json.dumps(wd)), gd))
        return got[1] == want[1] and got[2] == want[2] and got[3] == want[3] and data_ok
    return False


# ---- batches -----------------------------------------------------------------------------------------------
BATCH_NOTATIONS = ['add', 'dunder', 'proxy', 'getitem', 'notify+getitem', 'send', 'send-lax']


def batch_thunk(client, notation, elems):
    """elems: [(method, args, kwargs, is_call)]"""
    b = client.batch
    if notation == 'add':
        for m, a, kw, c in elems:
            (b.add if c else b.notify)(m, *a, **kw)
        return b.call
    if notation == 'dunder':
        for m, a, kw, c in elems:
            if c:
                b(m, *a, **kw)
            else:
                b.notify(m, *a, **kw)
        return b.call
    if notation == 'proxy':
        p = b.proxy
        for m, a, kw, c in elems:
            if c:
                getattr(p, m)(*a, **kw)
            else:
                b.notify(m, *a, **kw)
        return p.call
    if notation == 'getitem':
        return lambda: b[[(m,) + tuple(a) for m, a, kw, c in elems]]
    if notation == 'notify+getitem':
        # the notifications are added to the wrapper first, the calls follow through item access on the SAME wrapper
        for m, a, kw, c in elems:
            if not c:
                b.notify(m, *a, **kw)
        return lambda: b[[(m,) + tuple(a) for m, a, kw, c in elems if c]]
    gen = client.id_gen_impl()
    # 'send-lax': the hand-built container does not check its ids itself (strict=False)
    req = BatchRequest(*[Request(m, list(a) or dict(kw), id=(next(gen) if c else None)) for m, a, kw, c in elems],
                       **({'strict': False} if notation == 'send-lax' else {}))

    def send():
        r = b.send(req)
        if hasattr(r, '__await__'):
            async def go():
                x = await r
                return None if x is None else x.result
            return go()
        return None if r is None else r.result
    return send


def run_batch(case, rec):
    pair = tuple(case['pair'])
    elems = []
    for i, (m, c, shape) in enumerate(case['elems']):
        a, kw = args_for(shape, i + case.get('off', 0))
        elems.append((m, a, kw, c))
    results = {}
    for notation in BATCH_NOTATIONS:
        if notation == 'getitem' and (any(kw for _, _, kw, _ in elems) or not all(c for _, _, _, c in elems)):
            continue      # this notation has positional arguments and calls only
        if notation == 'send-lax' and case['idgen'] in ('randint12', 'random1ab'):
            continue      # with a colliding generator it is the caller who puts duplicate ids into an unchecked container
        if notation == 'notify+getitem':
            kinds_ = [c for _, _, _, c in elems]
            # applicable when all notifications precede the calls, there is at least one of each, calls are positional
            if not (False in kinds_ and True in kinds_ and kinds_ == sorted(kinds_) and not any(kw for _, _, kw, c in elems if c)):
                continue

        def once(env):
            Rnd.env, Rnd.counter = env, 0
            served = Served()
            wants = []
            for m, a, kw, c in elems:
                w, wl = direct(served, m, a, kw)
                wants.append((w, wl))
            client = build_system(pair, served, case['idgen'], case['strict'])
            Rnd.drawn = []
            holder = {}
            retry = None
            try:
                def first():
                    holder['t'] = batch_thunk(client, notation, elems)
                    return holder['t']()
                out = drive(pair[0], first)
                got = classify(out)
                if notation == 'getitem' and got[:2] == ('raised', 'IdentityError') and not client.sent and 't' in holder:
                    # the refused item access is repeated on the SAME wrapper: new ids are drawn for all calls
                    n0 = len(Rnd.drawn)
                    retry = (classify(drive(pair[0], holder['t'])), list(Rnd.drawn[n0:]), len(client.sent))
            finally:
                Rnd.env = None
            return served, client, wants, (got, retry)
        for choices, (served, client, wants, (got, retry)) in explore_choices(once, max_exec=5000):
            rec.transitions += 1
            c = dict(case, notation=notation, choices=list(choices))
            ncalls = sum(1 for e in elems if e[3])
            if got[0] == 'raised' and got[1] == 'IdentityError' and (not client.sent or retry):
                # collision of generated ids detected while the batch was being built: allowed for random generators
                if case['idgen'] in ('randint12', 'random1ab'):
                    rec.outcomes['id collision refused at build time'] += 1
                    if retry is not None:
                        got2, ids2, nsent = retry
                        if len(ids2) == ncalls and len(set(ids2)) == len(ids2):
                            rec.outcomes['refused item access repeated with distinct ids'] += 1
                            call_wants = [w for (w, _), e in zip(wants, elems) if e[3]]
                            if got2[:2] == ('raised', 'IdentityError') and nsent == 0:
                                rec.violation('C07:batch:a refused batch[...] leaves ids behind in the wrapper (the repeated access with distinct ids is refused)', c,
                                              expected='sent', observed=dict(first=got, second=got2, ids=ids2))
                            elif nsent != 1:
                                rec.violation('C07:batch:%d documents on the wire for a repeated batch[...]' % nsent, c, expected=1, observed=got2)
                            elif all(w[0] == 'ok' for w in call_wants) and not (got2[0] == 'ok' and isinstance(got2[1], tuple) and typed_eq(list(got2[1]), [w[1] for w in call_wants])):
                                rec.violation('C07:batch:results of a repeated batch[...] differ from the direct calls', c,
                                              expected=[w[1] for w in call_wants], observed=got2)
                    continue
                rec.violation('C07:batch:IdentityError while building a batch with a non-colliding generator', c, expected='sent', observed=got)
                continue
            if case['idgen'] == 'uuid' and ncalls and got[0] == 'raised' and got[1] == 'TypeError':
                rec.violation('C07:uuid generator yields ids the client cannot serialise', c, expected='sent', observed=got)
                continue
            if len(client.sent) != 1:
                rec.violation('C07:batch:%d documents on the wire for one batch' % len(client.sent), c, expected=1, observed=got)
                continue
            p, docshape = check_request_doc(client.sent[0][0], elems)
            if p:
                rec.violation('C07:batch:request document:%s' % norm(p)[:60], c, expected='valid request', observed=p)
                continue
            want_log = [x for _, wl in wants for x in wl]
            if not single_log_ok(served.log, want_log):
                rec.violation('C07:batch:functions not executed exactly once each, in order', c, expected=want_log, observed=served.log)
                continue
            call_wants = [w for (w, _), e in zip(wants, elems) if e[3]]
            if ncalls == 0:
                if got != ('ok', None):
                    rec.violation('C07:batch:all-notification batch returned or raised something', c, expected=('ok', None), observed=got)
                continue
            errs = [w for w in call_wants if w[0] != 'ok']
            if errs:
                if not any(same_outcome(got, w) for w in errs):
                    rec.violation('C07:batch:raised error differs from what the functions raised', c, expected=errs, observed=got)
                    continue
            else:
                want = tuple(w[1] for w in call_wants)
                if got[0] != 'ok' or not isinstance(got[1], tuple) or not typed_eq(list(got[1]), list(want)):
                    rec.violation('C07:batch:results differ from the direct calls', c, expected=want, observed=got)
                    continue
            results[notation] = (got, docshape)
            rec.nontrivial_n += 1
    vals = list(results.values())
    if any(not same_outcome(v[0], vals[0][0]) or v[1] != vals[0][1] for v in vals[1:]):
        rec.violation('C07:batch:notations are not interchangeable', case, expected='same outcome and document', observed=results)
    return (sorted((k, repr(v)) for k, v in results.items()),)


def drive_batch(ckind, client, notation, elems):
    """building the batch is part of the observed behaviour (id collisions surface there)"""
    t = batch_thunk(client, notation, elems)
    return t()


def gen_cases(ctx):
    pairs = [('sync', 'sync'), ('sync', 'async'), ('async', 'sync'), ('async', 'async')]
    for pair in pairs:
        yield dict(part='reqcls', pair=pair)
    for pair in pairs:
        for idgen in IDGENS:
            for strict in (True, False):
                for method in ('echo', 'terr', 'ferr', 'herr', 'uerr', 'lerr', 'boom', '_echo', '__x', 'deca', 'decb', 'bump', 'hist'):
                    for shape in ARGSHAPES:
                        for vi in (range(len(VALS)) if shape != 'none' else [0]):
                            if idgen not in ('sequential', 'sequential0', 'randint12') and vi > 1:
                                continue
                            yield dict(part='single', pair=pair, idgen=idgen, strict=strict, method=method, shape=shape, vi=vi)
    # end to end: the real backend clients through the real web-framework integrations (in-process HTTP)
    e2e_pairs = [(c, s) for c in E2E_CLIENTS for s in E2E_SERVERS]
    for pair in e2e_pairs:
        for idgen in ('sequential', 'sequential0'):
            for strict in (True, False):
                for method in ('echo', 'terr', 'ferr', 'herr', 'uerr', 'lerr', 'boom', '_echo', '__x', 'bump', 'hist'):
                    if method == 'hist' and pair[1] == 'flask':
                        continue          # flask's dumper sorts keys: known finding F-C18-6 (C18)
                    for shape in ARGSHAPES:
                        for vi in (range(len(VALS)) if shape != 'none' else [0]):
                            if (idgen != 'sequential' or not strict) and vi > 1:
                                continue
                            yield dict(part='single', pair=pair, idgen=idgen, strict=strict, method=method, shape=shape, vi=vi)
    for n in range(1, ctx.pick(2, 3) + 1):
        for kinds in itertools.product((True, False), repeat=n):
            for ms in itertools.product(['echo', 'ferr', 'boom'], repeat=n):
                elems = [(ms[i], kinds[i], ARGSHAPES[(i + 1) % 5]) for i in range(n)]
                for pair in e2e_pairs:
                    for idgen in ('sequential', 'sequential0'):
                        yield dict(part='batch', pair=pair, idgen=idgen, strict=True, elems=elems, off=0)
    L = ctx.pick(4, 4)
    behs = ['echo', 'ferr', 'boom'] if ctx.quick else ['echo', 'terr', 'ferr', 'uerr', 'boom']
    for n in range(1, L + 1):
        for kinds in itertools.product((True, False), repeat=n):
            for ms in itertools.product(behs, repeat=n):
                for shift in ((0, 3) if n <= 2 else (0,)):
                    elems = [(ms[i], kinds[i], ARGSHAPES[(i + shift + 1) % 5]) for i in range(n)]
                    for pair in pairs:
                        for idgen in ('sequential', 'sequential0', 'randint12', 'random1ab', 'randint1M', 'random', 'uuid'):
                            if idgen not in ('sequential', 'sequential0') and (n > 3 or pair[0] != pair[1]):
                                continue
                            if idgen in ('randint1M', 'random', 'uuid') and len(set(ms)) > 1:
                                continue
                            for strict in ((True, False) if n <= 2 else (True,)):
                                for off in ((0, 3, 4, 6) if (n <= 2 and idgen == 'sequential') else (0,)):
                                    yield dict(part='batch', pair=pair, idgen=idgen, strict=strict, elems=elems, off=off)


def run_case(case, rec):
    from mc.core import Recorder
    r = Recorder()
    obs = run_reqcls(case, r) if case['part'] == 'reqcls' else (run_single(case, r) if case['part'] == 'single' else run_batch(case, r))
    r.states += 1
    r.traces += 1
    r.counters[case['part']] += 1
    r.outcomes['violations' if r.violations else 'agree'] += 1
    rec.merge(r)
    return obs


def run(ctx):
    registered_error(7001)
    ctx.rule = ('E1+E3: single calls = 5 notations (call, client(...), proxy, send(Request), notify) x 4 client/dispatcher pairings '
                'x 6 id generators x strict on/off x 4 method behaviours x 5 argument shapes over a 6-value JSON alphabet; batches '
                '= every call/notify string of length 1..%d x behaviours per position x 5 notations (add, batch(...), proxy, '
                'batch[...], send(BatchRequest)); random.randint / random.choice are environment choice points (all answers for '
                'ranges <= 4, so id collisions are enumerated), uuid4 and wide ranges are scripted. state = one (configuration, '
                'call) point with all its notations and id choices; non-trivial = an outcome was compared with the direct call'
                % ctx.pick(4, 4))
    ctx.assumptions += ['the registered python functions themselves are the oracle (called directly, result JSON-normalised)',
                        'when several batch elements fail, which error batch.call raises is free']
    ctx.run_cases('C07', lambda: gen_cases(ctx), run_case, recheck_every=499)
    ctx.guard('id collisions explored', ctx.rec.outcomes.get('id collision refused at build time', 0) > 0, dict(ctx.rec.outcomes))
    ctx.guard('outcomes compared', ctx.rec.nontrivial_n > 1000, ctx.rec.nontrivial_n)


def replay(doc):
    from mc.core import Recorder, jdump
    rec = Recorder()
    case = {k: v for k, v in doc['case'].items() if k not in ('notation', 'choices')}
    run_case(case, rec)
    for v in rec.violations[:5]:
        print('VIOLATION-REPLAY signature=%s\n  case=%s\n  expected=%s\n  observed=%s' % (
            v['signature'], jdump(v['case'])[:300], jdump(v['expected'])[:300], jdump(v['observed'])[:300]))
    print('replayed: %d violation(s)' % len(rec.violations))
    return 1 if rec.violations else 0
