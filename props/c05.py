"""
C05 - messages survive the wire: serialise -> JSON text -> deserialise is lossless, the wire form is exact, a
second round trip is a fixpoint, and errors come back as the class registered for their code.
Mode E1 over a closed JSON value alphabet; two encoders (json.dumps(to_json()) and json.dumps(cls=JSONEncoder)).
"""
import itertools
import json

import pjrpc
from pjrpc.common import UNSET, BatchRequest, BatchResponse, Request, Response
from pjrpc.common.exceptions import JsonRpcError, JsonRpcErrorMeta

from mc import jsonstrict
from mc.harness.methods import registered_error
from mc.refmodel.server import typed_eq

V0 = [None, True, False, 0, -1, 1, 2 ** 64, 10 ** 30, 1.5, 1e-7, -0.0, 1e300, '', 'a', '"', '\\', '/', '\b\f\n\r\t',
      '\x00', '\x7f', 'é', '☃', '\U0001F600', '\ud800', [], {}]
W0 = [None, 0, '', [], {}, 'a']


def values():
    yield from V0
    for v in V0:
        yield [v]
        yield {'k': v}
        for w in W0:
            yield [v, w]
            yield {'a': v, 'b': w}
    for v in V0:
        yield [[v]]
        yield {'k': {'k': v}}
        yield [{'k': [v]}]
        yield {'k': [v, {'j': v}]}
    yield 'x' * 10000
    yield list(range(1000))
    yield {str(i): i for i in range(200)}
    yield [[[[1]]]]
    yield {'a': {'b': {'c': [None]}}}
    yield {'': 1, 'é': 2, '\x00': 3}
    yield list(range(50))


IDS = [None, 1, 0, -1, 2 ** 64, 'a', '', '1', 'é\U0001F600']
METHODS = ['m', '', 'a.b', 'é']
A = '__absent__'


class CustomBase(JsonRpcError):
    """a client-side base class supplied as error_cls (not registered: no code)"""


class HierV1(JsonRpcError):
    """documented pattern 'independent clients errors': a base class with its own code -> class resolution"""
    @classmethod
    def get_error_cls(cls, code, default):
        return next(iter((c for c in cls.__subclasses__() if getattr(c, 'code', None) == code)), default)


class V1Denied(HierV1):
    code = 7101
    message = 'v1 denied'


class HierV2(JsonRpcError):
    @classmethod
    def get_error_cls(cls, code, default):
        return next(iter((c for c in cls.__subclasses__() if getattr(c, 'code', None) == code)), default)


class V2NotFound(HierV2):
    code = 7101
    message = 'v2 not found'


class WithClassData(JsonRpcError):
    """a registered error class that happens to have a class attribute called 'data' (no meaning to the library)"""
    code = 7103
    message = 'with class data'
    data = {'class-level': True}


BASES = {'JsonRpcError': JsonRpcError, 'CustomBase': CustomBase, 'HierV1': HierV1, 'HierV2': HierV2}


def absent(v):
    return isinstance(v, str) and v == A


def gen_cases(ctx):
    vals = list(values())
    # requests
    for m, i in itertools.product(METHODS, IDS):
        for p in ['<none>', '<tuple0>', [], {}]:
            yield dict(part='request', method=m, id=i, params=p)
    for i in IDS:
        for v in vals:
            yield dict(part='request', method='m', id=i, params=[v])
            yield dict(part='request', method='m', id=i, params={'k': v})
            yield dict(part='request', method='m', id=i, params=['<tuple>', v])
    # responses: results
    for i in IDS:
        for v in vals:
            yield dict(part='response', id=i, result=v)
    # errors, alone and inside responses
    registry = sorted(STANDARD) + HARNESS_CODES + [7101, 7103]
    codes = registry + [1, -1, 12345, 2 ** 63, -32001]
    for code, msg in itertools.product(codes, ['m', '', 'é☃']):
        for d in [A] + vals:
            for base in BASES:
                yield dict(part='error', code=code, message=msg, data=d, base=base)
        for d in [A, None, 0, '', [], {}, [1, {'a': None}]]:
            for i in IDS[:5]:
                for base in BASES:
                    yield dict(part='response', id=i, error=dict(code=code, message=msg, data=d), base=base)
    # batches
    relems = [dict(method='m', id=1, params=[1]), dict(method='m', id=2, params='<none>'), dict(method='n', id=None, params={'a': None}),
              dict(method='', id='1', params=[]), dict(method='m', id=0, params=[[]])]
    selems = [dict(id=1, result=None), dict(id=2, result=0), dict(id='1', result=[1]), dict(id=None, result='x'),
              dict(id=0, error=dict(code=-32601, message='nf', data=A)), dict(id=3, error=dict(code=0, message='', data=None)),
              dict(id=4, error=dict(code=7001, message='m', data=[1]))]
    for n in range(0, ctx.pick(4, 5) + 1):
        for idx in itertools.permutations(range(len(relems)), n):
            yield dict(part='batchreq', elems=[relems[i] for i in idx])
        for idx in itertools.permutations(range(len(selems)), n):
            for base in BASES:
                yield dict(part='batchresp', elems=[selems[i] for i in idx], base=base)
    for code, msg, d in itertools.product(codes, ['m', ''], [A, None, 0, [1]]):
        for base in BASES:
            yield dict(part='batcherr', error=dict(code=code, message=msg, data=d), base=base)
    for depth in (50, 100, 200, 300, 450, 600, 750):
        for shape in ('list', 'dict'):
            for what in ('request', 'request-named', 'response', 'error', 'batchreq', 'batchresp'):
                yield dict(part='deep', depth=depth, shape=shape, what=what)


def mk_params(p):
    if isinstance(p, str) and p == '<none>':
        return None
    if isinstance(p, str) and p == '<tuple0>':
        return ()
    if isinstance(p, list) and p and isinstance(p[0], str) and p[0] == '<tuple>':
        return tuple(p[1:])
    return p


def mk_error(e, base=JsonRpcError):
    kw = {} if absent(e['data']) else dict(data=e['data'])
    return base(e['code'], e['message'], **kw)


HARNESS_CODES = [7001, 0, -7]
STANDARD = {-32700: 'ParseError', -32600: 'InvalidRequestError', -32601: 'MethodNotFoundError', -32602: 'InvalidParamsError',
            -32603: 'InternalError', -32000: 'ServerError'}


def expected_cls(code, base):
    """the class registered for a code - known independently of the library's registry: the six standard classes and
    the classes this harness defined (a class statement with a code is what registers a class)"""
    import pjrpc.common.exceptions as exc
    if base in (HierV1, HierV2):
        return {HierV1: V1Denied, HierV2: V2NotFound}[base] if code == 7101 else base
    if code == 7103:
        return WithClassData
    if code == 7101:
        return V2NotFound          # process-wide registry: the class defined last for a code
    if code in STANDARD:
        return getattr(exc, STANDARD[code])
    if code in HARNESS_CODES:
        return registered_error(code)
    return base


def norm_params(p):
    if isinstance(p, tuple):
        p = list(p)
    return p or None


def encode_both(msg):
    t1 = json.dumps(msg.to_json())
    t2 = json.dumps(msg, cls=pjrpc.JSONEncoder)
    return t1, t2


class Bad(Exception):
    pass


def wire_value(msg, v):
    t1, t2 = encode_both(msg)
    ok1, v1 = jsonstrict.parse(t1)
    ok2, v2 = jsonstrict.parse(t2)
    if not ok1 or not ok2:
        raise Bad(('encoders:text is not JSON', t1[:200]))
    if v1 != v2:
        raise Bad(('encoders:to_json and JSONEncoder disagree', (t1[:200], t2[:200])))
    # the server-side encoder class (what dispatchers and integrations dump with) and a message nested inside another value
    import pjrpc.server
    try:
        t3 = json.dumps(msg, cls=pjrpc.server.JSONEncoder)
        t4 = json.dumps({'wrapped': [msg]}, cls=pjrpc.server.JSONEncoder)
        t5 = json.dumps({'wrapped': [msg]}, cls=pjrpc.JSONEncoder)
    except Exception as e:   # noqa
        raise Bad(('encoders:the server JSONEncoder cannot encode the message (%s)' % type(e).__name__, str(e)[:200]))
    ok3, v3 = jsonstrict.parse(t3)
    ok4, v4 = jsonstrict.parse(t4)
    ok5, v5 = jsonstrict.parse(t5)
    if not (ok3 and ok4 and ok5) or v3 != v1 or v4 != {'wrapped': [v1]} or v5 != v4:
        raise Bad(('encoders:the server JSONEncoder / a nested message encodes differently from to_json', (t1[:200], t3[:200], t4[:200])))
    return json.loads(t1), t1


def check_error_wire(w, e):
    want = {'code', 'message'} | (set() if absent(e['data']) else {'data'})
    if set(w) != want:
        raise Bad(('wire:error members', sorted(w)))
    if not (typed_eq(w['code'], e['code']) and w['message'] == e['message']):
        raise Bad(('wire:error code/message', w))
    if not absent(e['data']) and not typed_eq(w['data'], e['data']):
        raise Bad(('wire:error data', w))


def check_error_obj(err, e, base):
    if type(err) is not expected_cls(e['code'], base):
        raise Bad(('class:error deserialised as %s instead of %s' % (type(err).__name__, expected_cls(e['code'], base).__name__), None))
    if not (typed_eq(err.code, e['code']) and err.message == e['message']):
        raise Bad(('fields:error code/message', repr(err)))
    if absent(e['data']):
        if err.data is not UNSET:
            raise Bad(('fields:absent error data became %r' % (err.data,), None))
    elif err.data is UNSET or not typed_eq(err.data, e['data']):
        raise Bad(('fields:error data', repr(err)))


def fixpoint(x, y):
    a, b = json.dumps(x.to_json(), sort_keys=True), json.dumps(y.to_json(), sort_keys=True)
    if a != b:
        raise Bad(('fixpoint:second serialisation differs', (a[:200], b[:200])))


def req_wire_check(w, method, id, params):
    want = {'jsonrpc', 'method'} | ({'id'} if id is not None else set()) | ({'params'} if norm_params(params) else set())
    if set(w) != want:
        raise Bad(('wire:request members %s' % sorted(w), want))
    if w['jsonrpc'] != '2.0' or w['method'] != method:
        raise Bad(('wire:request jsonrpc/method', w))
    if id is not None and not typed_eq(w['id'], id):
        raise Bad(('wire:request id', w))
    if norm_params(params) and not typed_eq(w['params'], norm_params(params)):
        raise Bad(('wire:request params', w))


def poison(v):
    """modify a deserialised container in place (what a middleware / method / caller may do with ITS message)"""
    if isinstance(v, list):
        v.append('POISON')
    elif isinstance(v, dict):
        v['POISON'] = 1


def unaffected(what, f):
    """messages deserialised later must not see what was done to an earlier message (no shared default / cached containers)"""
    try:
        f()
    except Bad as b:
        raise Bad(('aliasing:%s deserialised after an earlier message was modified in place differs (%s)' % (what, b.args[0][0]), b.args[0][1]))


def run_request(c):
    params = mk_params(c['params'])
    x = Request(c['method'], params, c['id'])
    w, text = wire_value(x, None)
    req_wire_check(w, c['method'], c['id'], params)
    y = Request.from_json(json.loads(text))
    if not (y.method == c['method'] and typed_eq(y.id, c['id']) and typed_eq(norm_params(y.params), norm_params(params))
            and y.is_notification == (c['id'] is None)):
        raise Bad(('fields:request', repr(y)))
    fixpoint(x, y)
    poison(y.params)

    def again():
        z = Request.from_json(json.loads(text))
        if not typed_eq(norm_params(z.params), norm_params(params)):
            raise Bad(('fields:request params', repr(z)))
        # ... and a different message of the same shape (no params member at all)
        z0 = Request.from_json({'jsonrpc': '2.0', 'method': 'other', 'id': 5})
        if norm_params(z0.params) is not None or 'params' in z0.to_json():
            raise Bad(('fields:parameter-less request has params %r' % (z0.params,), None))
        poison(z0.params)
        z1 = BatchRequest.from_json([{'jsonrpc': '2.0', 'method': 'other'}, {'jsonrpc': '2.0', 'method': 'b', 'id': 1}])
        if any(norm_params(r.params) is not None for r in z1):
            raise Bad(('fields:parameter-less batch element has params', None))
    unaffected('request', again)


def resp_wire_check(w, c):
    want = {'jsonrpc', 'id'} | ({'result'} if 'result' in c else {'error'})
    if set(w) != want:
        raise Bad(('wire:response members %s' % sorted(w), sorted(want)))
    if w['jsonrpc'] != '2.0' or not typed_eq(w['id'], c['id']):
        raise Bad(('wire:response jsonrpc/id', w))
    if 'result' in c:
        if not typed_eq(w['result'], c['result']):
            raise Bad(('wire:result', w))
    else:
        check_error_wire(w['error'], c['error'])


def resp_obj_check(y, c, base):
    if not typed_eq(y.id, c['id']):
        raise Bad(('fields:response id', repr(y)))
    if 'result' in c:
        if not (y.is_success and y.error is UNSET and typed_eq(y.result, c['result'])):
            raise Bad(('fields:result', repr(y)))
    else:
        if not y.is_error:
            raise Bad(('fields:error lost', repr(y)))
        check_error_obj(y.error, c['error'], base)
        try:
            y.result
            raise Bad(('fields:result of an error response did not raise', None))
        except JsonRpcError as e:
            if e is not y.error:
                raise Bad(('fields:raised error is not the response error', None))


def mk_response(c):
    if 'result' in c:
        return Response(id=c['id'], result=c['result'])
    return Response(id=c['id'], error=mk_error(c['error']))


def run_response(c):
    base = BASES[c.get('base') or 'JsonRpcError']
    x = mk_response(c)
    w, text = wire_value(x, None)
    resp_wire_check(w, c)
    y = Response.from_json(json.loads(text), error_cls=base)
    resp_obj_check(y, c, base)
    fixpoint(x, y)
    if 'result' in c:
        poison(y.result)
    else:
        poison(y.error.data)
    unaffected('response', lambda: resp_obj_check(Response.from_json(json.loads(text), error_cls=base), c, base))


def run_error(c):
    base = BASES[c['base']]
    x = mk_error(c, JsonRpcError)
    w, text = wire_value(x, None)
    check_error_wire(w, c)
    y = base.from_json(json.loads(text))
    check_error_obj(y, c, base)
    fixpoint(x, y)
    poison(y.data)
    unaffected('error', lambda: check_error_obj(base.from_json(json.loads(text)), c, base))
    # constructing through the registered class gives the same wire form
    cls = expected_cls(c['code'], None)
    if cls is not None:
        z = cls(message=c['message'], **({} if absent(c['data']) else dict(data=c['data'])))
        if json.dumps(z.to_json(), sort_keys=True) != json.dumps(x.to_json(), sort_keys=True):
            raise Bad(('wire:registered class serialises differently', None))


def run_batchreq(c):
    elems = c['elems']
    x = BatchRequest(*[Request(e['method'], mk_params(e['params']), e['id']) for e in elems])
    w, text = wire_value(x, None)
    if not isinstance(w, list) or len(w) != len(elems):
        raise Bad(('wire:batch request length', w))
    for we, e in zip(w, elems):
        req_wire_check(we, e['method'], e['id'], mk_params(e['params']))
    if not elems:
        return   # an empty batch request is (rightly) refused by from_json - C06
    y = BatchRequest.from_json(json.loads(text))
    if len(y) != len(elems) or not all(r.method == e['method'] and typed_eq(r.id, e['id']) and
                                       typed_eq(norm_params(r.params), norm_params(mk_params(e['params'])))
                                       for r, e in zip(y, elems)):
        raise Bad(('fields:batch request elements / order', repr(y)))
    if y.is_notification != all(e['id'] is None for e in elems):
        raise Bad(('fields:batch is_notification', None))
    fixpoint(x, y)
    # a container built without id checking (strict=False) holds the same messages: same wire form, same notification status
    lax = BatchRequest(*[Request(e['method'], mk_params(e['params']), e['id']) for e in elems], strict=False)
    if json.dumps(lax.to_json(), sort_keys=True) != json.dumps(x.to_json(), sort_keys=True) or lax.is_notification != x.is_notification or len(lax) != len(x):
        raise Bad(('fields:a non-strict batch request differs from the strict one (wire form / is_notification)', (lax.is_notification, x.is_notification)))
    for r in y:
        poison(r.params)

    def again():
        z = BatchRequest.from_json(json.loads(text))
        if not all(typed_eq(norm_params(r.params), norm_params(mk_params(e['params']))) for r, e in zip(z, elems)):
            raise Bad(('fields:batch request elements', repr(z)))
    unaffected('batch request', again)


def run_batchresp(c):
    base = BASES[c['base']]
    elems = c['elems']
    x = BatchResponse(*[mk_response(e) for e in elems])
    w, text = wire_value(x, None)
    if not isinstance(w, list) or len(w) != len(elems):
        raise Bad(('wire:batch response length', w))
    for we, e in zip(w, elems):
        resp_wire_check(we, e)
    y = BatchResponse.from_json(json.loads(text), error_cls=base)
    if len(y) != len(elems) or not y.is_success:
        raise Bad(('fields:batch response length', repr(y)))
    for r, e in zip(y, elems):
        resp_obj_check(r, e, base)
    if y.has_error != any('error' in e for e in elems):
        raise Bad(('fields:has_error', None))
    fixpoint(x, y)


def run_batcherr(c):
    base = BASES[c['base']]
    x = BatchResponse(error=mk_error(c['error']))
    w, text = wire_value(x, None)
    resp_wire_check(w, dict(id=None, error=c['error']))
    y = BatchResponse.from_json(json.loads(text), error_cls=base)
    if not y.is_error or len(y):
        raise Bad(('fields:batch-level error lost', repr(y)))
    check_error_obj(y.error, c['error'], base)
    try:
        y.result
        raise Bad(('fields:result of a failed batch did not raise', None))
    except JsonRpcError as e:
        if e is not y.error:
            raise Bad(('fields:raised error is not the batch error', None))
    fixpoint(x, y)


def run_deep(c):
    """messages whose params / result / error data are nested far deeper than the values above (but well within what the JSON codec
    handles): serialising, encoding (plain and through the library encoder), decoding and deserialising is still lossless"""
    import json as _json
    depth, shape, what = c['depth'], c['shape'], c['what']
    text = ('[' * depth + '1' + ']' * depth) if shape == 'list' else ('{"a":' * depth + '1' + '}' * depth)
    nest = _json.loads(text)
    if what == 'request':
        msg, back = Request('m', [nest], id=1), Request.from_json
    elif what == 'request-named':
        msg, back = Request('m', {'k': nest}, id='x'), Request.from_json
    elif what == 'response':
        msg, back = Response(id=1, result=nest), Response.from_json
    elif what == 'error':
        msg, back = Response(id=1, error=JsonRpcError(5, 'deep', data=nest)), Response.from_json
    elif what == 'batchreq':
        msg, back = BatchRequest(Request('m', [nest], id=1), Request('n', {'k': nest})), BatchRequest.from_json
    else:
        msg, back = BatchResponse(Response(id=1, result=nest), Response(id=2, error=JsonRpcError(5, 'deep', data=nest))), BatchResponse.from_json
    w1 = msg.to_json()
    t1 = _json.dumps(w1)
    t2 = _json.dumps(msg, cls=pjrpc.common.JSONEncoder)
    if t1 != t2:
        raise Bad(('deep:the library encoder and to_json() give different texts', (depth, shape, what)))
    again = back(_json.loads(t1))
    t3 = _json.dumps(again.to_json())
    if t3 != t1 or _json.dumps(nest) not in t1:
        raise Bad(('deep:wire form changed by the round trip', (depth, shape, what)))


RUN = dict(deep=run_deep, request=run_request, response=run_response, error=run_error, batchreq=run_batchreq, batchresp=run_batchresp,
           batcherr=run_batcherr)


def run_case(case, rec):
    for c_ in HARNESS_CODES:
        registered_error(c_)
    obs = 'ok'
    try:
        RUN[case['part']](case)
    except Bad as b:
        sig, detail = b.args[0]
        rec.violation('C05:%s:%s' % (case['part'], sig), case, expected='lossless round trip', observed=detail)
        obs = sig
    except Exception as e:   # noqa
        rec.violation('C05:%s:%s raised during the round trip' % (case['part'], type(e).__name__), case,
                      expected='lossless round trip', observed='%s: %s' % (type(e).__name__, e))
        obs = type(e).__name__
    rec.outcomes[case['part'] + ':' + ('ok' if obs == 'ok' else 'bad')] += 1
    rec.states += 1
    rec.transitions += 4      # two encodings, one decode, one re-encode
    rec.traces += 1
    if case['part'] in ('error', 'batchresp', 'batcherr', 'deep') or 'error' in case or case.get('params') not in ('<none>', [], {}):
        rec.nontrivial_n += 1
    return obs


def run(ctx):
    for c_ in HARNESS_CODES:
        registered_error(c_)
    ctx.rule = ('E1: JSON value alphabet of %d base values closed once under [v], [v,w], {"k":v}, {"a":v,"b":w} (%d values) '
                'as params / result / error data; ids %r; methods %r; every registered code plus unregistered ones x '
                'messages x data, deserialised with the default and with a custom base class; batches = all ordered '
                'selections of <= %d of 5/7 element shapes; batch-level errors. state = one message; non-trivial = '
                'carries a payload or an error' % (len(V0), len(list(values())), IDS, METHODS, ctx.pick(4, 5)))
    ctx.assumptions += ['an empty BatchRequest is serialised but not deserialised (refused by design, see C06)',
                        'NaN / Infinity are not JSON values and are outside the alphabet']
    ctx.run_cases('C05', lambda: gen_cases(ctx), run_case, recheck_every=2003)
    oc = ctx.rec.outcomes
    ctx.guard('all message kinds round-tripped', all(oc.get(k + ':ok', 0) > 0 for k in RUN), dict(oc))


def replay(doc):
    from mc.core import Recorder, jdump
    rec = Recorder()
    run_case(doc['case'], rec)
    for v in rec.violations[:5]:
        print('VIOLATION-REPLAY signature=%s\n  case=%s\n  observed=%s' % (v['signature'], jdump(v['case'])[:300], jdump(v['observed'])[:300]))
    print('replayed: %d violation(s)' % len(rec.violations))
    return 1 if rec.violations else 0
