"""shared pieces of the server-side checks (C01-C03, C11-C13)"""
import json
import re

from mc.harness import methods
from mc.harness.server import Sys, parse_return
from mc.refmodel import server as ref
from mc.refmodel.server import NOTHING


def norm(problem):
    """normalise a problem string into a signature fragment (values removed)"""
    s = re.sub(r"'[^']*'|\"[^\"]*\"", 'S', str(problem))
    s = re.sub(r'-?\d+(\.\d+)?', 'N', s)
    s = re.sub(r'\b(True|False|None)\b', 'V', s)
    s = re.sub(r'\[[^\]]*\]|\{[^}]*\}|\([^)]*\)', 'V', s)
    return s[:120]


def observe(sys_, text, context=None):
    """dispatch text; -> dict(raised=, problem=, answer=, codes=, calls=, text=)"""
    kind, val = sys_.dispatch(text, context=context)
    calls = sys_.take_log()
    if kind == 'raise':
        return dict(raised='%s: %s' % (type(val).__name__, str(val)[:100]), problem=None, answer=None, codes=None,
                    calls=calls, text=None)
    problem, answer, codes = parse_return(val)
    if problem is None and getattr(sys_, 'left_running', None):
        problem = '%d handler task(s) still running when dispatch returned' % len(sys_.left_running)
    return dict(raised=None, problem=problem, answer=answer, codes=codes, calls=calls,
                text=val[0] if val else None)


def obs_key(o):
    """compact observation for determinism checks / outcome classes"""
    return (o['raised'], o['problem'], json.dumps(o['answer'], sort_keys=True, default=repr), o['codes'],
            repr(o['calls']))


def outcome_class(o):
    if o['raised']:
        return 'raised'
    if o['problem']:
        return 'malformed'
    a = o['answer']
    if a is NOTHING:
        return 'nothing'
    if isinstance(a, list):
        return 'batch[%s]' % ','.join(sorted({str(c) for c in (o['codes'] or ())}))
    return 'single[%s]' % (o['codes'][0] if o['codes'] else '?')
