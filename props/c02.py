"""
C02 - one response per call, none per notification; a batch maps over its elements.
Mode E1 (exhaustive product enumeration) with reference (S3), compositionality, id-echo and
exactly-once oracles.  See DESIGN.md section 5 / C02.
"""
import itertools
import json

from mc.harness import methods
from mc.harness.server import Sys
from mc.refmodel import server as ref
from mc.refmodel.server import NOTHING, REQ
from mc.refmodel.wire import INVALID, request_object_class

from .common_server import norm, obs_key, observe, outcome_class

TABLE = dict(methods.STD_TABLE, push=dict(kind='viewstate', params=[('x', REQ)]))

# element kinds: (label, method, params | None)
KINDS = [
    ('succ', 'ok', [1]),
    ('succn', 'ok', {'b': 2}),
    ('null', 'nop', None),
    ('unknown', 'nope', [1]),
    ('nobind', 'add', [1]),
    ('nobind0', 'add', None),
    ('perr', 'perr', None),
    ('boom', 'boom', [5]),
    ('boomt', 'boomt', [5]),       # a TypeError raised by the body itself (not by the call)
    ('push', 'push', [4]),         # a method of a stateful class based view registered without a context
]
H_KINDS = [('vboom', 'vboom', None), ('valboom', 'valboom', None)]
H_TABLE = dict(TABLE, vboom=dict(kind='internal', params=[]), valboom=dict(kind='internal', params=[]))
INVALID_ELEMS = [1, {}, {'jsonrpc': '2.0', 'method': 1, 'id': 7}, {'jsonrpc': '2.0', 'method': 'ok', 'params': None, 'id': 8},
                 {'jsonrpc': '2.0', 'method': 'ok', 'params': 0}]
ID_ALPHABET = [1, '1', 0, '', -1, '__absent__', None]
DISPS = ['sync', 'async', 'async-seq', 'async-wrapped', 'sync-custom', 'async-custom', 'sync-mw', 'async-mw', 'async-conc2', 'sync-pd', 'async-pd',
         'sync-log', 'async-log']          # -log: served while the pjrpc loggers are enabled for DEBUG


def elem(kind, id):
    label, method, params = kind
    o = {'jsonrpc': '2.0', 'method': method}
    if params is not None:
        o['params'] = params
    if not (isinstance(id, str) and id == '__absent__'):
        o['id'] = id
    return o


def gen_cases(ctx):
    n_a = ctx.pick(3, 4)
    n_b = ctx.pick(3, 4)
    kinds2 = [(k, c) for k in KINDS for c in ('call', 'notif')]
    # singles: every kind x every id typing (incl. lenient / invalid ids)
    for disp in DISPS:
        for k in KINDS:
            for id in ID_ALPHABET + [2 ** 64, 'abc', 1.5, 1.0, True, False, [], {}]:
                yield dict(part='single', disp=disp, mbs=None, doc=elem(k, id))
        for inv in INVALID_ELEMS + [None, 'x', True, 1.5]:
            yield dict(part='single', disp=disp, mbs=None, doc=inv)
        yield dict(part='single', disp=disp, mbs=None, doc=[])
    # (a) all kind sequences with distinct ids
    rot = 0
    alphabet = [('e', k, c) for k, c in kinds2] + [('i', inv, None) for inv in INVALID_ELEMS]
    for n in range(1, n_a + 1):
        for seq in itertools.product(alphabet, repeat=n):
            doc = []
            for pos, (t, k, c) in enumerate(seq):
                doc.append(elem(k, pos + 1 if c == 'call' else '__absent__') if t == 'e' else k)
            rot += 1
            # longest batches of the tier: the four basic flavours for every document, the other flavours take turns
            for disp in (DISPS if n < ctx.pick(3, 4) else DISPS[:4] + [DISPS[4 + rot % (len(DISPS) - 4)]]):
                yield dict(part='a', disp=disp, mbs=None, doc=doc)
    # (b) all id assignments, one failing kind at each position (or none)
    fails = [None] + [k for k in KINDS if k[0] in ('unknown', 'nobind', 'perr', 'boom')]
    for n in range(1, n_b + 1):
        for ids in itertools.product(ID_ALPHABET, repeat=n):
            for fk in fails:
                for pos in (range(n) if fk else [0]):
                    doc = [elem(fk if (fk and i == pos) else KINDS[0], ids[i]) for i in range(n)]
                    rot += 1
                    for disp in (DISPS if n < ctx.pick(3, 4) else DISPS[:4] + [DISPS[4 + rot % (len(DISPS) - 4)]]):
                        yield dict(part='b', disp=disp, mbs=None, doc=doc)
    # (d) equal-valued arguments of different JSON types in one batch (1 / 1.0 / true, 0 / 0.0 / false, "1", nested): each element
    #     must be executed with - and answered from - its OWN arguments
    typed = [[1], [1.0], [True], [0], [0.0], [False], ['1'], [[1]], [[1.0]], [[True]], {'a': 1}, {'a': 1.0}, {'a': True}, [1, 0], [1.0, False],
             [None], {'a': None}, [None, None], {'b': None}]
    for n in range(1, ctx.pick(3, 3) + 1):
        for seq in itertools.product(range(len(typed) if (n <= 2 or not ctx.quick) else 8), repeat=n):
            doc = [elem(('t', 'ok', typed[t]), pos + 1) for pos, t in enumerate(seq)]
            for disp in DISPS[:4] + ['sync-pd', 'async-pd']:
                yield dict(part='d', disp=disp, mbs=None, doc=doc)
    # (h) requests whose handling fails BEFORE the method body (broken view constructor / validator, the -32603 path), as calls and
    #     as notifications, next to ordinary elements
    small_h = [(KINDS[0], 'call'), (KINDS[0], 'notif'), (H_KINDS[0], 'call'), (H_KINDS[0], 'notif'), (H_KINDS[1], 'call'), (H_KINDS[1], 'notif'), (KINDS[6], 'notif')]
    for disp in DISPS:
        for k, c in small_h[2:6]:
            yield dict(part='h', disp=disp, mbs=None, doc=elem(k, 1 if c == 'call' else '__absent__'))
        for n in range(1, 4):
            for seq in itertools.product(small_h, repeat=n):
                if not any(k in H_KINDS for k, c in seq):
                    continue
                yield dict(part='h', disp=disp, mbs=None, doc=[elem(k, pos + 1 if c == 'call' else '__absent__') for pos, (k, c) in enumerate(seq)])
    for disp in DISPS:
        for route in ('registry.add', 'registry.merge', 'dispatcher.add', 'dispatcher.add_methods'):
            yield dict(part='late', disp=disp, route=route)
    # (g) deeply nested arguments echoed back (the response has to be serialised again): depths around the interpreter limits
    for depth in (100, 500, 900, 990, 1000, 1005, 1100, 1400, 1490):
        for o, c in (('[', ']'), ('{"a":', '}')):
            for disp in DISPS[:4]:
                # (the nested value itself is built when the case runs: cases travel between processes)
                yield dict(part='g', disp=disp, mbs=None, deep=[depth, o, c, 'single'])
                yield dict(part='g', disp=disp, mbs=None, deep=[depth, o, c, 'batch'])
    # (e) long batches: lengths around powers of two and other round numbers (chunking / slicing thresholds), a few patterns each
    for L in (5, 8, 16, 17, 31, 32, 33, 50, 63, 64, 65, 100, 127, 128, 129, 255, 256, 257, 500, 1000, 1001):
        for pattern in ('calls', 'alternate', 'last-fails', 'notifs-then-call'):
            doc = []
            for i in range(L):
                if pattern == 'calls':
                    doc.append(elem(KINDS[0], i + 1))
                elif pattern == 'alternate':
                    doc.append(elem(KINDS[i % len(KINDS)], (i + 1) if i % 2 == 0 else '__absent__'))
                elif pattern == 'last-fails':
                    doc.append(elem(KINDS[3] if i == L - 1 else KINDS[1], i + 1))
                else:
                    doc.append(elem(KINDS[0], L if i == L - 1 else '__absent__'))
            for disp in DISPS[:4]:
                yield dict(part='e', disp=disp, mbs=None, doc=doc)
                if pattern == 'calls':
                    yield dict(part='e', disp=disp, mbs=L, doc=doc)
                    yield dict(part='e', disp=disp, mbs=L - 1, doc=doc)
    # (c) max_batch_size at and around the length
    small = [('e', KINDS[0], 'call'), ('e', KINDS[0], 'notif'), ('e', KINDS[3], 'call'), ('e', KINDS[6], 'notif'),
             ('i', 1, None)]
    for n in range(1, ctx.pick(3, 4) + 1):
        for seq in itertools.product(small, repeat=n):
            doc = []
            for pos, (t, k, c) in enumerate(seq):
                doc.append(elem(k, pos + 1 if c == 'call' else '__absent__') if t == 'e' else k)
            for mbs in sorted({n - 1, n, n + 1, 1, 0}):
                if mbs < 0:
                    continue
                for disp in DISPS:
                    yield dict(part='c', disp=disp, mbs=mbs, doc=doc)


def run_late(case, rec):
    """a method that is requested before it exists and registered afterwards (through each public registration route) must be
    executed exactly once per later call - and only then"""
    import pjrpc.server
    disp, route = case['disp'], case['route']
    s = Sys(disp, TABLE)
    log = []
    if s.is_async:
        async def late(a=0):
            log.append(('late', a))
            return ['late', a]
    else:
        def late(a=0):
            log.append(('late', a))
            return ['late', a]
    texts = [json.dumps(elem(('x', 'late', [1]), 1)), json.dumps([elem(('x', 'late', [2]), 2), elem(('x', 'late', [3]), '__absent__')])]
    for t in texts:
        o = observe(s, t)
        rec.transitions += 1
        if o['raised'] or o['problem']:
            rec.violation('C02:late:%s' % ('raised' if o['raised'] else 'malformed'), case, expected='a response document', observed=o['raised'] or o['problem'])
            return 'bad'
        codes = [e.get('error', {}).get('code') for e in (o['answer'] if isinstance(o['answer'], list) else [o['answer']])] if o['answer'] is not NOTHING else []
        if log or any(c != -32601 for c in codes):
            rec.violation('C02:late:a method that does not exist yet was executed / not answered with -32601', case, expected=-32601, observed=dict(answer=o['answer'], log=list(log)))
            return 'bad'
    if route == 'registry.add':
        s.d.registry.add(late, name='late')
    elif route == 'registry.merge':
        r = pjrpc.server.MethodRegistry()
        r.add(late, name='late')
        s.d.registry.merge(r)
    elif route == 'dispatcher.add':
        s.d.add(late, name='late')
    else:
        r = pjrpc.server.MethodRegistry()
        r.add(late, name='late')
        s.d.add_methods(r)
    want_log = []
    for t, n_exec, args in ((texts[0], 1, [1]), (texts[1], 2, [2, 3]), (texts[0], 1, [1])):
        del log[:]
        o = observe(s, t)
        rec.transitions += 1
        if [a for _, a in log] != args:
            rec.violation('C02:late:a method registered after it was first requested is not executed exactly once per call', case,
                          expected=args, observed=dict(answer=o['answer'], log=list(log)))
            return 'bad'
    rec.traces += 1
    rec.states += 1
    rec.nontrivial_n += 1
    return 'ok'


def new_sys(case, disp, mbs):
    s = Sys(disp, TABLE, max_batch_size=mbs)
    if case['part'] == 'h':
        from .c01 import register_internal_failures
        register_internal_failures(s.d)
    return s


def run_case(case, rec):
    if case['part'] == 'late':
        return run_late(case, rec)
    if 'deep' in case:
        depth, o_, c_, shape = case['deep']
        nest = json.loads(o_ * depth + '1' + c_ * depth)
        doc = elem(('deep', 'ok', [nest]), 1) if shape == 'single' else [elem(('deep', 'ok', {'b': nest}), 1), elem(('deep', 'ok', [1]), 2)]
    else:
        doc = case['doc']
    disp, mbs = case['disp'], case['mbs']
    text = json.dumps(doc)
    s = new_sys(case, disp, mbs)
    o = observe(s, text)
    rec.transitions += 1
    rec.outcomes[outcome_class(o)] += 1
    shape = 'batch' if isinstance(doc, list) else 'single'
    if s.uses is not None:
        # every pluggable piece handed to the constructor must actually be used
        need = ['json_loader', 'json_decoder'] + (['json_dumper', 'json_encoder', 'response_class'] if o['text'] else [])
        missing = [k for k in need if not s.uses.get(k)]
        if missing:
            rec.violation('C02:%s:configured %s not used by the dispatcher' % (shape, '/'.join(missing)), case,
                          expected=need, observed=dict(s.uses))

    if o['raised'] or o['problem']:
        rec.violation('C02:%s:%s' % (shape, 'raised' if o['raised'] else 'malformed'), case,
                      expected='a response document or nothing', observed=o['raised'] or o['problem'])
        return obs_key(o)

    alts = ref.expected(doc, H_TABLE if case['part'] == 'h' else TABLE, max_batch_size=mbs)
    if 'deep' in case:
        # L5: a document nested deeper than the interpreter can parse may be refused as a whole (nothing executed)
        alts = alts + [(dict(id=None, code=c_, exact=None), []) for c_ in (-32700, -32600)]
    problems = ref.match_any(o['answer'], o['calls'], alts)
    if problems is not None:
        p = problems[-1]
        if o['answer'] == [] and any(a is NOTHING for a, _ in alts):
            sig = 'C02:batch:all-notification batch answered with an empty array'
        else:
            sig = 'C02:%s:ref:%s' % (shape, norm(p))
        rec.violation(sig, case, expected=[a for a, _ in alts], observed=dict(answer=o['answer'], calls=o['calls']),
                      detail=p)

    # compositionality: an accepted batch equals its elements sent alone, in order
    accepted = isinstance(doc, list) and doc and all(request_object_class(e) != INVALID for e in doc) \
        and not ref.ids_duplicate(doc) and not (mbs and len(doc) > mbs) and mbs != 0
    if accepted and case['part'] in ('e', 'g'):
        rec.nontrivial_n += 1         # long batches / deep documents are judged by the reference model only
    elif accepted:
        rec.nontrivial_n += 1
        singles, calls = [], []
        for e in doc:
            s1 = new_sys(case, disp, None)
            o1 = observe(s1, json.dumps(e))
            rec.transitions += 1
            if o1['raised'] or o1['problem']:
                singles = None
                break
            calls += o1['calls']
            if o1['answer'] is not NOTHING:
                singles.append(o1['answer'])
        if singles is not None:
            composed = singles if singles else NOTHING
            same = (composed is NOTHING and o['answer'] is NOTHING) or (
                composed is not NOTHING and o['answer'] is not NOTHING and ref.typed_eq(composed, o['answer']))
            if not same and not (o['answer'] == [] and composed is NOTHING):
                rec.violation('C02:batch:compositionality', case, expected=composed, observed=o['answer'])
            elif not same:
                rec.violation('C02:batch:all-notification batch answered with an empty array', case,
                              expected=NOTHING, observed=o['answer'])
            if not ref.calls_eq(calls, o['calls']):
                rec.violation('C02:batch:executions differ from elements sent alone', case, expected=calls,
                              observed=o['calls'])
    rec.traces += 1
    rec.states += 1
    return obs_key(o)


def run(ctx):
    ctx.rule = ('E1 product enumeration: every single request over element kinds x id typings; every batch of '
                'length <= %d over 17 element types with distinct ids; every id assignment over %r for batches of '
                'length <= %d with one failing element at each position; max_batch_size around the length; equal-valued arguments of different JSON types in batches <= 3; long batches (21 lengths 5..1001 around round numbers, 4 patterns); both '
                'dispatchers (sync, async, async with sequential batches, async with plain functions returning coroutines).  state = one (configuration, document) point, all distinct by construction; '
                'non-trivial = accepted batch (compared element-wise with its elements sent alone)'
                % (ctx.pick(3, 4), ID_ALPHABET, ctx.pick(3, 4)))
    ctx.assumptions += ['registered methods keep no state; JSON texts produced by json.dumps of the enumerated values',
                        'L1: explicit id null = notification or answered with id null; L2 fractional ids may be refused; '
                        'L3 max_batch_size=0 may mean no limit']
    ctx.bounds.update(batch_len=ctx.pick(3, 4), id_alphabet=ID_ALPHABET, dispatchers=DISPS)
    ctx.run_cases('C02', lambda: gen_cases(ctx), run_case)
    oc = ctx.rec.outcomes
    ctx.guard('answered and unanswered seen', oc.get('nothing', 0) > 0 and any(k.startswith('batch') for k in oc))
    ctx.guard('rejected batches seen', oc.get('single[-32600]', 0) > 0)
    ctx.guard('accepted batches compared', ctx.rec.nontrivial_n > 100)


def replay(doc):
    from mc.core import Recorder, jdump
    rec = Recorder()
    run_case(doc['case'], rec)
    for v in rec.violations:
        print('VIOLATION-REPLAY signature=%s\n  expected=%s\n  observed=%s' % (
            v['signature'], jdump(v['expected'])[:500], jdump(v['observed'])[:500]))
    print('replayed case %s: %d violation(s)' % (jdump(doc['case'])[:300], len(rec.violations)))
    return 1 if rec.violations else 0
