#!/venv/bin/python
"""
Fast regression over ALL kept seeded changes: apply each patch in a scratch worktree and run the property's own check (then, if that
does not report it, the neighbouring checks recorded as catching it) - no test suite, no demo.  Prints one line per seed and a summary.
usage: [PROPS=C15,C16] tools/fast_recheck.py [first-number [last-number]]
"""
import glob
import json
import os
import subprocess
import sys

VERIF = os.path.dirname(os.path.dirname(os.path.abspath(__file__)))
lo = int(sys.argv[1]) if len(sys.argv) > 1 else 1
hi = int(sys.argv[2]) if len(sys.argv) > 2 else 999
NEIGH = {'C01': ['C18', 'C14', 'C02'], 'C02': ['C18', 'C07', 'C13', 'C10'], 'C03': ['C14', 'C18', 'C12'], 'C04': ['C14', 'C18'], 'C05': ['C01', 'C03'],
         'C06': ['C02', 'C08', 'C01'], 'C07': ['C12', 'C13', 'C09'], 'C08': ['C07'], 'C09': ['C11'], 'C10': ['C12', 'C11'], 'C11': ['C09'],
         'C12': ['C18', 'C10'], 'C13': ['C04'], 'C14': ['C04', 'C13'], 'C15': ['C18'], 'C16': ['C17'], 'C17': ['C16', 'C14'], 'C18': [], 'C19': ['C09'], 'C20': []}
lost = []
n = 0
for d in sorted(glob.glob(os.path.join(VERIF, 'seeded', 'C*-*')), key=lambda x: (os.path.basename(x).split('-')[0], int(x.split('-')[-1]))):
    sid = os.path.basename(d)
    pid, num = sid.split('-')
    if not (lo <= int(num) <= hi):
        continue
    if os.environ.get('PROPS') and pid not in os.environ['PROPS'].split(','):
        continue
    try:
        m = json.load(open(os.path.join(d, 'meta.json')))
    except Exception:
        continue
    if not m.get('valid_seed'):
        continue
    n += 1
    checks = [pid] + [c for c in (m.get('caught_by') or []) if c != pid] + [c for c in NEIGH.get(pid, []) if c not in (m.get('caught_by') or [])]
    caught = None
    for c in checks:
        r = subprocess.run([os.path.join(VERIF, 'tools/try_patch.py'), '--patch', os.path.join(d, 'patch.diff'), '--skip-tests', c],
                           stdout=subprocess.PIPE, stderr=subprocess.STDOUT, text=True)
        if "detected_by=['" in r.stdout:
            caught = c
            break
    print('%s %s' % (sid, ('caught by %s' % caught) if caught else 'NOT CAUGHT (tried %s)' % ','.join(checks)), flush=True)
    if caught is None:
        lost.append(sid)
    elif caught != pid:
        # remember the neighbour in the seed's record
        if caught not in m.get('caught_by', []):
            m.setdefault('caught_by', []).append(caught)
            m['missed_by'] = [x for x in m.get('missed_by', []) if x != caught]
            json.dump(m, open(os.path.join(d, 'meta.json'), 'w'), indent=1)
print('checked %d valid seeds; not caught by anything: %s' % (n, lost))
