#!/bin/bash
# evaluate every seeded change under /tmp/seed/*/out/* that has not been evaluated yet
cd "$(dirname "${BASH_SOURCE[0]}")/.." || exit 2
declare -A REL=( [C01]="C02 C03" [C02]="C01 C10" [C03]="C01 C05 C11" [C04]="C14 C17" [C05]="C03 C06" [C06]="C05 C01" [C07]="C05 C08"
  [C08]="C07" [C09]="C11 C19" [C10]="C02 C11" [C11]="C12 C19 C09" [C12]="C11 C10" [C13]="C14" [C14]="C04 C13" [C15]="" [C16]="C17"
  [C17]="C16 C04" [C18]="" [C19]="C11 C09" [C20]="" )
for d in /tmp/seed/C*/out/*/; do
  pid=$(echo $d | cut -d/ -f4); n=$(basename $d)
  [ -f "$d/patch.diff" ] && [ -f "$d/demo.py" ] || continue
  [ -f "seeded/$pid-$n/meta.json" ] && continue
  if [ -n "$OWN_ONLY" ]; then tools/eval_seed.py $pid $n 2>&1 | cut -c1-220; else tools/eval_seed.py $pid $n ${REL[$pid]} 2>&1 | cut -c1-220; fi
done
