#!/venv/bin/python
"""Compile /verif/seeded/RESULTS.md from the meta.json files written by tools/eval_seed.py."""
import glob
import json
import os

VERIF = os.path.dirname(os.path.dirname(os.path.abspath(__file__)))
rows = []
for d in sorted(glob.glob(os.path.join(VERIF, 'seeded', 'C*-*'))):
    try:
        m = json.load(open(os.path.join(d, 'meta.json')))
    except Exception:
        continue
    hist = []
    hp = os.path.join(d, 'history.json')
    if os.path.exists(hp):
        hist = json.load(open(hp))
    rows.append((os.path.basename(d), m, hist))
out = ['# Independently seeded changes', '',
       'Each change was written by a fresh sub-agent that saw only the text of one property and a scratch worktree (nothing from /verif).',
       'Confirmed here (tools/eval_seed.py) in a scratch worktree: patch applies, the 219 pinned tests pass, demo.py fails with the patch and',
       'passes without it. "first run" = result of the checks as they were when the change arrived; "now" = after strengthening.', '',
       '| seed | valid | what it does | needs to manifest | caught by (now) | missed by (now) | first run |', '|---|---|---|---|---|---|---|']
n_valid = n_caught = 0
for name, m, hist in rows:
    first = hist[0] if hist else None
    fr = '-' if not first else ('caught by %s' % ','.join(first['caught_by']) if first['caught_by'] else 'MISSED')
    if first and first.get('missed_by') and first['caught_by']:
        fr += ' (missed by %s)' % ','.join(first['missed_by'])
    if m.get('valid_seed'):
        n_valid += 1
        if m.get('caught_by'):
            n_caught += 1
    out.append('| %s | %s | %s | %s | %s | %s | %s |' % (
        name, 'yes' if m.get('valid_seed') else 'NO', (m.get('summary') or '').replace('|', '/').replace('\n', ' ')[:260],
        (m.get('needs_to_manifest') or '').replace('|', '/').replace('\n', ' ')[:220], ', '.join(m.get('caught_by', [])) or '-',
        ', '.join(m.get('missed_by', [])) or '-', fr))
out += ['', '%d valid seeded changes, %d caught by at least one check now.' % (n_valid, n_caught), '']
open(os.path.join(VERIF, 'seeded', 'RESULTS.md'), 'w').write('\n'.join(out))
print('\n'.join(out[-3:]))
