#!/bin/bash
# usage: tools/run_all.sh [quick|thorough] [seed]   - runs every registered check, prints one line each
cd "$(dirname "${BASH_SOURCE[0]}")/.." || exit 2
tier=${1:-quick}; seed=${2:-0}
rc=0
for i in $(seq -w 1 20); do
  p=C$i
  s=$(date +%s.%N)
  out=$(VERIF_SEED=$seed ./check $p --tier $tier 2>&1); code=$?
  e=$(date +%s.%N)
  printf "%s exit=%d wall=%.1fs %s\n" $p $code $(echo "$e - $s" | bc) "$(echo "$out" | grep -c '^KNOWN-FINDING') known; $(echo "$out" | tail -1 | cut -c1-150)"
  [ $code -ne 0 ] && rc=1 && echo "$out" | grep -E "VIOLATION|ERROR|signature" | head -5
done
exit $rc
