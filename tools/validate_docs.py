#!/usr/local/bin/python3-vt
"""
Second stage of C16 (runs under python3-vt: jsonschema 4.x with draft-04 / draft-07 / 2020-12 support).
stdin / file: JSON lines {"key":..., "kind": "openapi-3.1"|"openapi-3.0"|"openrpc", "doc": {...}}
stdout: JSON lines {"key":..., "errors": [ {message, path, schema_path, validator} ... ]} for documents that fail.
"""
import json
import os
import sys

import jsonschema

HERE = os.path.dirname(os.path.dirname(os.path.abspath(__file__)))


def load(name):
    with open(os.path.join(HERE, 'resources', name)) as f:
        return json.load(f)


VALIDATORS = {
    'openapi-3.1': jsonschema.Draft202012Validator(load('oas-3.1-meta.json')),
    'openapi-3.0': jsonschema.Draft4Validator(load('oas-3.0-meta.json')),
    'openrpc': jsonschema.Draft7Validator(load('openrpc-1.3.2.json')),
}


def main():
    src = open(sys.argv[1]) if len(sys.argv) > 1 else sys.stdin
    for line in src:
        if not line.strip():
            continue
        item = json.loads(line)
        v = VALIDATORS[item['kind']]
        errs = []
        for e in v.iter_errors(item['doc']):
            best = jsonschema.exceptions.best_match([e])
            errs.append(dict(message=best.message[:300], path=[str(p) for p in best.absolute_path],
                             schema_path=[str(p) for p in best.absolute_schema_path][-6:], validator=best.validator))
            if len(errs) >= 3:
                break
        if errs:
            sys.stdout.write(json.dumps(dict(key=item['key'], errors=errs)) + '\n')
    sys.stdout.write(json.dumps(dict(done=True)) + '\n')


if __name__ == '__main__':
    main()
