#!/venv/bin/python
"""
Run the repository's pinned test suite in <repo dir> (default /repo) and compare with the stable-pass list
of /root/.vp/BASELINE.json.  Exit 0 iff every stable-pass test passes.
usage: tools/baseline.py [repo_dir]
"""
import json
import os
import subprocess
import sys
import tempfile
import xml.etree.ElementTree as ET

repo = os.path.abspath(sys.argv[1] if len(sys.argv) > 1 else '/repo')
base = json.load(open('/root/.vp/BASELINE.json'))
want = set(base['stable_pass'])
with tempfile.TemporaryDirectory(prefix='pjrpc-baseline-') as td:
    xml = os.path.join(td, 'junit.xml')
    env = dict(os.environ, PYTHONDONTWRITEBYTECODE='1', PYTHONPATH=repo)
    env.pop('PJRPC_VERIF', None)
    p = subprocess.run(['/venv/bin/python', '-m', 'pytest', '-q', '-p', 'no:cacheprovider', '--timeout=900',
                        '--continue-on-collection-errors', '--junitxml=' + xml], cwd=repo, env=env,
                       stdout=subprocess.PIPE, stderr=subprocess.STDOUT, text=True)
    passed = set()
    for tc in ET.parse(xml).getroot().iter('testcase'):
        if not any(ch.tag in ('failure', 'error', 'skipped') for ch in tc):
            passed.add('%s::%s' % (tc.get('classname'), tc.get('name')))
missing = sorted(want - passed)
print('baseline: %d stable-pass tests, %d passed now, %d of the stable set missing; %d extra passes'
      % (len(want), len(passed), len(missing), len(passed - want)))
for m in missing[:40]:
    print('  NOT PASSING:', m)
sys.exit(1 if missing else 0)
