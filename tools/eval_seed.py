#!/venv/bin/python
"""
Evaluate an independently seeded change: /tmp/seed/<pid>/out/<n>/{patch.diff,demo.py,meta.json}.
Confirms in a scratch worktree that (a) the pinned tests still pass with the patch, (b) the demo fails with it and passes
without it, then runs the named checks (default: the property's own check) against the patched worktree.
Keeps the change as /verif/seeded/<pid>-<n>/ with a meta.json saying what was run and which checks caught it.
usage: tools/eval_seed.py <pid> <n> [extra checks...] [--tier quick|thorough] [--src DIR]
"""
import argparse
import json
import os
import shutil
import subprocess
import sys
import tempfile

VERIF = os.path.dirname(os.path.dirname(os.path.abspath(__file__)))
ap = argparse.ArgumentParser()
ap.add_argument('pid')
ap.add_argument('n')
ap.add_argument('checks', nargs='*')
ap.add_argument('--tier', default='quick')
ap.add_argument('--src')
a = ap.parse_args()
src = a.src or '/tmp/seed/%s/out/%s' % (a.pid, a.n)
dst = os.path.join(VERIF, 'seeded', '%s-%s' % (a.pid, a.n))
if os.path.exists(src) and os.path.abspath(src) != os.path.abspath(dst):
    os.makedirs(dst, exist_ok=True)
    for f in ('patch.diff', 'demo.py', 'meta.json'):
        if os.path.exists(os.path.join(src, f)):
            shutil.copy(os.path.join(src, f), os.path.join(dst, 'seeder_meta.json' if f == 'meta.json' else f))
patch, demo = os.path.join(dst, 'patch.diff'), os.path.join(dst, 'demo.py')
checks = [a.pid] + [c for c in a.checks if c != a.pid]

scratch = tempfile.mkdtemp(prefix='pjrpc-verif-seed-', dir='/var/tmp')
os.rmdir(scratch)
out = tempfile.mkdtemp(prefix='pjrpc-verif-out-', dir='/var/tmp')
res = dict(property=a.pid, tier=a.tier, ran=[])
try:
    subprocess.run(['git', '-C', '/repo', 'worktree', 'add', '-q', '--detach', scratch, 'HEAD'], check=True)

    def demo_run():
        r = subprocess.run(['/venv/bin/python', demo], env=dict(os.environ, PYTHONPATH=scratch, PYTHONHASHSEED='0'), cwd=scratch,
                           stdout=subprocess.PIPE, stderr=subprocess.STDOUT, text=True, timeout=600)
        return r.returncode, r.stdout.strip()[-300:]
    rc0, o0 = demo_run()
    res['demo_without_patch'] = dict(exit=rc0, tail=o0)
    ap_ = subprocess.run(['git', '-C', scratch, 'apply', patch], stderr=subprocess.PIPE, text=True)
    if ap_.returncode != 0:
        # the patch was written against an earlier HEAD (before a later fix: commit): three-way apply
        ap_ = subprocess.run(['git', '-C', scratch, 'apply', '-3', patch], stderr=subprocess.PIPE, text=True)
        subprocess.run(['git', '-C', scratch, 'reset', '-q'])
    res['patch_applies'] = ap_.returncode == 0
    if ap_.returncode != 0:
        res['apply_error'] = ap_.stderr[-300:]
    else:
        r = subprocess.run([os.path.join(VERIF, 'tools/baseline.py'), scratch], stdout=subprocess.PIPE, text=True)
        res['tests_pass_with_patch'] = r.returncode == 0
        res['tests'] = r.stdout.strip().splitlines()[:6]
        rc1, o1 = demo_run()
        res['demo_with_patch'] = dict(exit=rc1, tail=o1)
        res['caught_by'] = []
        res['missed_by'] = []
        for c in checks:
            env = dict(os.environ, PJRPC_REPO=scratch, VERIF_EVIDENCE_DIR=out, VERIF_REPLAY_DIR=out)
            r = subprocess.run([os.path.join(VERIF, 'check'), c, '--tier', a.tier], env=env, stdout=subprocess.PIPE, stderr=subprocess.STDOUT, text=True)
            lines = r.stdout.strip().splitlines()
            sigs = [l.strip()[len('signature:'):].strip() for l in lines if l.strip().startswith('signature:')]
            res['ran'].append(dict(check=c, cmd='PJRPC_REPO=<scratch worktree with patch> ./check %s --tier %s' % (c, a.tier), exit=r.returncode,
                                   signatures=sigs[:8], last=lines[-1][:200] if lines else ''))
            (res['caught_by'] if r.returncode == 1 else res['missed_by']).append(c)
            if r.returncode not in (0, 1):
                res.setdefault('errors', []).append(dict(check=c, tail=lines[-6:]))
finally:
    subprocess.run(['git', '-C', '/repo', 'worktree', 'remove', '--force', scratch])
    subprocess.run(['git', '-C', '/repo', 'worktree', 'prune'])
    shutil.rmtree(out, ignore_errors=True)
valid = res.get('patch_applies') and res.get('tests_pass_with_patch') and res.get('demo_with_patch', {}).get('exit') not in (0, None) and rc0 == 0
res['valid_seed'] = bool(valid)
try:
    sm = json.load(open(os.path.join(dst, 'seeder_meta.json')))
    res['summary'] = sm.get('summary')
    res['needs_to_manifest'] = sm.get('needs_to_manifest')
except Exception:
    pass
with open(os.path.join(dst, 'meta.json'), 'w') as f:
    json.dump(res, f, indent=1)
# keep the outcome of every evaluation (the first one shows what the checks caught before any strengthening)
hp = os.path.join(dst, 'history.json')
hist = json.load(open(hp)) if os.path.exists(hp) else []
head = subprocess.run(['git', '-C', VERIF, 'rev-parse', '--short', 'HEAD'], stdout=subprocess.PIPE, text=True).stdout.strip()
hist.append(dict(verif_commit=head, tier=a.tier, caught_by=res.get('caught_by', []), missed_by=res.get('missed_by', [])))
with open(hp, 'w') as f:
    json.dump(hist, f, indent=1)
if res.get('errors'):
    print('   !! HARNESS ERROR (exit 2) in: %s' % [e['check'] for e in res['errors']])
    for e in res['errors']:
        print('      ' + ' | '.join(e['tail'])[-400:])
print('%s-%s valid=%s tests=%s demo(without/with)=%s/%s caught_by=%s missed_by=%s' % (
    a.pid, a.n, res['valid_seed'], res.get('tests_pass_with_patch'), rc0, res.get('demo_with_patch', {}).get('exit'),
    res.get('caught_by'), res.get('missed_by')))
for r in res['ran']:
    for s in r['signatures'][:4]:
        print('     %s: %s' % (r['check'], s[:160]))
