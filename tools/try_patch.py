#!/venv/bin/python
"""
Apply a patch (or revert a commit) in a scratch git worktree of /repo, run the pinned test suite there and the
named checks against it (PJRPC_REPO), report, remove the worktree.  Nothing is written to /repo or to
/verif/evidence.
usage: tools/try_patch.py (--patch FILE | --revert COMMIT) [--tier quick] [--skip-tests] Cxx [Cyy ...]
exit 0 iff the tests still pass and at least one named check reports a VIOLATION
"""
import argparse
import os
import shutil
import subprocess
import sys
import tempfile

VERIF = os.path.dirname(os.path.dirname(os.path.abspath(__file__)))
ap = argparse.ArgumentParser()
ap.add_argument('--patch')
ap.add_argument('--revert')
ap.add_argument('--tier', default='quick')
ap.add_argument('--skip-tests', action='store_true')
ap.add_argument('--demo', help='demonstration script to run with PYTHONPATH=<scratch> (expected to fail)')
ap.add_argument('props', nargs='+')
a = ap.parse_args()

scratch = tempfile.mkdtemp(prefix='pjrpc-verif-mut-', dir='/var/tmp')
os.rmdir(scratch)
out = tempfile.mkdtemp(prefix='pjrpc-verif-out-', dir='/var/tmp')
rc = 1
try:
    subprocess.run(['git', '-C', '/repo', 'worktree', 'add', '-q', '--detach', scratch, 'HEAD'], check=True)
    if a.patch:
        if subprocess.run(['git', '-C', scratch, 'apply', os.path.abspath(a.patch)]).returncode != 0:
            subprocess.run(['git', '-C', scratch, 'apply', '-3', os.path.abspath(a.patch)], check=True)
            subprocess.run(['git', '-C', scratch, 'reset', '-q'])
    else:
        p = subprocess.run(['git', '-C', '/repo', 'diff', a.revert, a.revert + '^'], check=True, stdout=subprocess.PIPE)
        r = subprocess.run(['git', '-C', scratch, 'apply'], input=p.stdout)
        if r.returncode:
            # later fixes touched neighbouring lines: fall back to a three-way merge of the reverse diff
            subprocess.run(['git', '-C', scratch, 'apply', '-3'], input=p.stdout, check=True)
    tests_ok = True
    if not a.skip_tests:
        r = subprocess.run([os.path.join(VERIF, 'tools/baseline.py'), scratch], stdout=subprocess.PIPE, text=True)
        print(r.stdout.strip())
        tests_ok = r.returncode == 0
    if a.demo:
        r = subprocess.run(['/venv/bin/python', os.path.abspath(a.demo)], env=dict(os.environ, PYTHONPATH=scratch),
                           stdout=subprocess.PIPE, stderr=subprocess.STDOUT, text=True, cwd=scratch)
        print('demo exit=%d: %s' % (r.returncode, r.stdout.strip()[-300:]))
    detected = []
    for prop in a.props:
        env = dict(os.environ, PJRPC_REPO=scratch, VERIF_EVIDENCE_DIR=out, VERIF_REPLAY_DIR=out)
        r = subprocess.run([os.path.join(VERIF, 'check'), prop, '--tier', a.tier], env=env, stdout=subprocess.PIPE,
                           stderr=subprocess.STDOUT, text=True)
        lines = r.stdout.strip().splitlines()
        sigs = [l.strip() for l in lines if l.strip().startswith('signature:')]
        print('%s exit=%d %s' % (prop, r.returncode, lines[-1] if lines else ''))
        for s in sigs[:6]:
            print('     ', s[:200])
        if r.returncode == 1:
            detected.append(prop)
        elif r.returncode != 0:
            print('\n'.join(lines[-15:]))
    print('RESULT tests_pass=%s detected_by=%s' % (tests_ok, detected))
    rc = 0 if (tests_ok and detected) else 1
finally:
    subprocess.run(['git', '-C', '/repo', 'worktree', 'remove', '--force', scratch])
    subprocess.run(['git', '-C', '/repo', 'worktree', 'prune'])
    shutil.rmtree(out, ignore_errors=True)
sys.exit(rc)
