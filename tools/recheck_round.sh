#!/bin/bash
# re-evaluate seeded changes (own check only) against the current checks and the current /repo HEAD
# usage: tools/recheck_round.sh 9 10 11      (seed numbers)
cd "$(dirname "${BASH_SOURCE[0]}")/.." || exit 2
for i in $(seq -w 1 20); do
  for n in "$@"; do
    [ -d "seeded/C$i-$n" ] || continue
    tools/eval_seed.py C$i $n --src seeded/C$i-$n 2>&1 | grep "^C[0-9]" | cut -c1-200
  done
done
