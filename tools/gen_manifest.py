#!/venv/bin/python
"""Generates /verif/MANIFEST.json from the table below (kept in one place so it stays valid)."""
import json
import os

HERE = os.path.dirname(os.path.dirname(os.path.abspath(__file__)))

# property id -> (technique, level text, level note, design ref) ; only built checks are listed
CHECKS = {
    'C07': ('exhaustive enumeration of call notations x configurations with the random id generators as environment choice points '
            '(all answers enumerated), real client wired to the real dispatcher in-process; the registered python function called '
            'directly is the reference',
            '5 single-call notations and 5 batch notations x 4 sync/async client-dispatcher pairings x 6 id generators x strict '
            'on/off x 4 method behaviours x argument shapes; all call/notify strings up to length 3/4: one valid request document '
            'per send with distinct ids, caller gets the direct call\'s value / typed exception, every function runs once, '
            'notations interchangeable, id collisions of random generators surface as IdentityError at build time.',
            'trusted: direct python call + JSON normalisation as oracle; random.randint / random.choice / uuid.uuid4 replaced by the explorer',
            'DESIGN.md section 5, C07'),
    'C10': ('exhaustive schedule enumeration on a virtual asyncio event loop: every order in which the pending suspension points '
            '(gates) of methods, middlewares and error handlers can complete is executed on the real AsyncDispatcher',
            'Batches of 1..4 elements (quick: 4 over 5 kinds; thorough: 4 over all 14 types, 5 over 4 kinds) with 0..2 suspension points per element, '
            'failing / notification / plain-function / unknown-method elements, middleware and error-handler gates, concurrent and '
            'sequential mode: responses in request order with own id and payload, every method once, no deadlock; sequential '
            'mode never has two elements in flight.',
            'trusted: mc/vloop.py (FIFO ready queue as asyncio guarantees, stock Task/gather/Future); suspension only at gates',
            'DESIGN.md section 5, C10'),
    'C13': ('(a) exhaustive enumeration of request histories without state merging, differential against a fresh dispatcher; '
            '(b) invariant over growing histories with weak references and cache sizes; (c) CHESS-style exhaustive thread '
            'interleaving exploration with preemption bounding (sys.settrace line-level scheduler over real threads)',
            'All histories of length <= 2/3 over 18 requests followed by all probes on one dispatcher equal the fresh answers; after '
            '1110 dispatches no context / view / per-request object is alive and caches do not grow; 12 request pairs on 2 threads '
            '(<= 2 preemptions) and 3 triples on 3 threads (<= 1 preemption) on a shared Dispatcher, a switch possible at every '
            'pjrpc source line: each thread gets its solo answer and its own context.',
            'trusted: mc/threadsched.py (self-tested on a planted lost update); GIL-atomic C code is outside the model; no pools beyond 3 threads',
            'DESIGN.md section 5, C13'),
    'C08': ('exhaustive enumeration of every response document an adversarial server can return (environment choice '
            'exploration) against the real sync/async client, judged by a reference id-matcher',
            'For batches of 1..3/4 calls: every response array of length 0..n+1 over {id of call i, unknown id, type-confused '
            'id, null} x {success, error} (all permutations, omissions, duplications, additions), junk elements at every '
            'position, non-array bodies, batch-level errors; single calls over 6 request ids x 5 id relations x 5 payloads; '
            'strict on/off, sync/async, call/send: strict mismatches raise IdentityError, invalid bodies DeserializationError, '
            'accepted results are attributed to the calls in call order and linked to their requests.',
            'trusted: reference matcher inside props/c08.py; L6 null-id entries; which of several element errors is raised is free',
            'DESIGN.md section 5, C08'),
    'C09': ('stateless exploration of the complete tree of per-attempt transport outcomes (environment choice points) for every '
            'retry configuration on the real sync/async client, lock-step with a reference retry/backoff model',
            'attempts 0..3/5 x code sets x exception sets x {single, batch, notification, all-notification batch} x sync/async with '
            'all outcome sequences; 60 backoff parameterisations x attempts 0..3/6; 7 strategy placements: number and identity of '
            'sends, every requested pause (time.sleep / asyncio.sleep recorders, virtual clock) and the object reaching the '
            'caller equal the reference.',
            'trusted: reference model in props/c09.py; time.sleep and asyncio.sleep are the only clocks; L7 Fibonacci indexing',
            'DESIGN.md section 5, C09'),
    'C19': ('stateless exploration of the complete tree of per-attempt outcomes incl. decode / identity failures and BaseException '
            'on the real sync/async client; invariant on the tracer event log of every execution',
            'retry strategies of 0..2/3 attempts x 0..3 tracers x 4 request kinds x default/supplied trace context x sync/async: '
            'every attempt has, for every tracer in configuration order, one begin and exactly one completion (end with the '
            'attempt\'s response or error with the very exception), one context object per attempt, exception reaches the caller unchanged.',
            'trusted: instrumented Tracer subclasses; cancellation is modelled as CancelledError raised at the transport await',
            'DESIGN.md section 5, C19'),
    'C05': ('exhaustive enumeration of constructible messages over a closed JSON value alphabet, round-tripped through both '
            'encoders on the real classes; field-wise, wire-exactness, fixpoint and error-class oracles',
            'Every request / response / error / batch over a value alphabet closed once under list/object construction, all id '
            'typings, all registered and several unregistered codes incl. 0, empty messages, absent vs null data, default and '
            'custom error base class, batches of <= 3/4 elements and batch-level errors: serialise (two encoders) -> text -> '
            'deserialise gives equal fields, the exact member sets, the registered error class, and an identical second wire form.',
            'trusted: json.dumps/json.loads, mc/jsonstrict.py; values outside the alphabet are not covered',
            'DESIGN.md section 5, C05'),
    'C06': ('exhaustive product enumeration of member alphabets for from_json plus stateless DFS over all append/extend '
            'histories of the real batch classes in lock-step with a list+set reference model (no state merging)',
            'Full product of 17-value member alphabets for request (jsonrpc x id x method x params), response (x 19 error '
            'shapes) and error objects, every non-object input, batches of <= 3 elements, batch-level objects: outcome is a '
            'message or DeserializationError (IdentityError for duplicates), invalid never accepted, valid accepted with equal '
            'fields. All append/extend/constructor histories with <= 4/5 ids over {1,2,"1",0,null}, strict on/off, both batch '
            'classes: outcome and contents equal the model after every step (so a failed operation leaves no trace).',
            'trusted: wire predicates mc/refmodel/wire.py; lenient points L2 (fractional ids, integral float codes), missing '
            'response id, empty response array',
            'DESIGN.md section 5, C06'),
    'C01': ('exhaustive enumeration of request texts (all token strings up to a length bound, the full product of member '
            'alphabets, lexical edge literals) on the real dispatchers; invariant checked on every execution',
            'Every string of <= 4/6 tokens over a 12-token JSON-RPC alphabet, the full product jsonrpc x id x method x '
            'params x extra-member for single objects, all arrays up to length 3/4 over a 14-element alphabet under '
            'max_batch_size {None,0,1,2,n}, and integer/float/escape/nesting/whitespace edge literals at 14 positions, '
            'for both dispatchers: dispatch never raises and returns nothing or (strict-JSON response document, matching codes).',
            'trusted: the strict RFC 8259 recogniser mc/jsonstrict.py (self-tested against json.loads) and the wire '
            'predicates mc/refmodel/wire.py; texts outside the alphabets / bounds are not covered',
            'DESIGN.md section 5, C01'),
    'C03': ('exhaustive enumeration of the failure table (protocol errors x exception types x placement) and of the C01 text '
            'corpora on the real dispatchers, lock-step with the reference server model',
            'All protocol errors over 12 codes x 3 messages x 11 data shapes (base class, registered subclass, standard '
            'classes) and 13 exception types, as call / notification / at each batch position, sync / async / plain function '
            'under the async dispatcher; plus every C01 text judged by the strict JSON recogniser and the reference server: '
            'codes -32700/-32600/-32601/-32602/-32000 as specified, application errors verbatim, no exception detail in the response.',
            'trusted: mc/jsonstrict.py, mc/refmodel/server.py; message/data of library-generated errors are unconstrained (L4)',
            'DESIGN.md section 5, C03'),
    'C02': ('exhaustive product enumeration of request documents on the real dispatchers, lock-step with a '
            'reference server model (explicit-state, stateless)',
            'Every single request over 7 element kinds x 15 id typings and every batch up to length 3 (quick) / 4 '
            '(thorough) over 17 element types, every id assignment over {1,"1",0,"",-1,absent,null} with a failing '
            'element at each position, max_batch_size around the length, both dispatchers: answer and executions '
            'equal the reference model, and every accepted batch equals its elements sent alone.',
            'trusted: json.dumps/json.loads for building texts, the 60-line reference server (mc/refmodel/server.py); '
            'nothing beyond the stated alphabets and lengths is covered',
            'DESIGN.md section 5, C02'),
}

NOT_YET = 'check not built yet (planned, see DESIGN.md section 5)'

ALL = ['C%02d' % i for i in range(1, 21)]


def main():
    checks = []
    for pid in ALL:
        if pid not in CHECKS:
            continue
        tech, text, note, ref = CHECKS[pid]
        checks.append(dict(
            property_id=pid,
            quick_cmd='./check %s --tier quick' % pid,
            thorough_cmd='./check %s --tier thorough' % pid,
            evidence_file='/verif/evidence/%s.json' % pid,
            replay_cmd_template='./check %s --replay {path}' % pid,
            engine='mc',
            level_claimed=dict(category='model_checking', text=text, design_ref=ref),
            level_note=note,
            technique=tech,
        ))
    m = dict(
        version=1,
        setup_cmd='./setup.sh',
        hooks=dict(
            guard='PJRPC_VERIF',
            enable='no source hooks exist: every observation point is public API; ./check exports PJRPC_VERIF=1 for '
                   'uniformity and imports pjrpc from /repo (or $PJRPC_REPO) working tree',
            baseline_off_cmd='cd /repo && /venv/bin/python -m pytest -ra -q -p no:cacheprovider --timeout=900 '
                             '--continue-on-collection-errors',
            source_commits=[],
            add_only=True,
        ),
        engines=[dict(name='mc', path='/verif/mc', serves_properties=sorted(CHECKS),
                      kind_free_text='home-grown explicit-state / stateless explorer for Python: product '
                                     'enumeration, BFS over histories, choice-point DFS, virtual asyncio loop, '
                                     'settrace thread scheduler; reference models run in lock-step with the real code')],
        checks=checks,
        notes='Exit 0 = held on everything explored (KNOWN-FINDING lines allowed), 1 = VIOLATION, 2 = harness error. '
              'known findings: /verif/known_findings.json',
        not_applicable=[dict(property_id=p, reason=NOT_YET) for p in ALL if p not in CHECKS],
    )
    with open(os.path.join(HERE, 'MANIFEST.json'), 'w') as f:
        json.dump(m, f, indent=1)
    print('MANIFEST.json: %d checks, %d not yet' % (len(checks), len(m['not_applicable'])))


if __name__ == '__main__':
    main()
