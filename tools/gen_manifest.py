#!/venv/bin/python
"""Generates /verif/MANIFEST.json from the table below (kept in one place so it stays valid)."""
import json
import os

HERE = os.path.dirname(os.path.dirname(os.path.abspath(__file__)))

# property id -> (technique, level text, level note, design ref) ; only built checks are listed
CHECKS = {
    'C01': ('exhaustive enumeration of request texts (all token strings up to a length bound, the full product of member alphabets, '
            'lexical edge literals) on the real dispatchers; invariant checked on every execution',
            'Every string of <= 5/6 tokens over a 12-token alphabet, the full product jsonrpc(10) x id(15) x method(19) x params(11) x '
            'extra-member for single objects, all arrays up to length 3/4 over 24 element shapes (repeated / falsy ids, methods failing '
            'before their body runs) under max_batch_size {None,0,1,2,n}, integer / float / escape / nesting / whitespace edge literals at '
            '16 positions; six dispatcher flavours (sync, async, sequential-batch, coroutine-returning plain functions, all pluggable '
            'classes replaced by counting subclasses): dispatch never raises and returns nothing or (strict-JSON response document, matching codes).',
            'trusted: mc/jsonstrict.py (self-tested against json.loads), mc/refmodel/wire.py; texts outside the alphabets / bounds are not covered',
            'DESIGN.md section 5, C01'),
    'C02': ('exhaustive product enumeration of request documents on the real dispatchers, lock-step with a reference server model '
            '(explicit-state, stateless) plus a compositionality oracle',
            'Every single request over 8 element kinds x 15 id typings and every batch up to length 3/4 over 19 element types, every id '
            'assignment over {1,"1",0,"",-1,absent,null} with a failing element at each position, max_batch_size around the length, six '
            'dispatcher flavours (coroutine methods complete in reverse order): answer and executions equal the reference model, every '
            'accepted batch equals its elements sent alone, configured pluggable classes are really used.',
            'trusted: json.dumps/json.loads for building texts, mc/refmodel/server.py; nothing beyond the stated alphabets and lengths',
            'DESIGN.md section 5, C02'),
    'C03': ('exhaustive enumeration of the failure table (protocol errors x exception types x placement) and of the C01 text corpora on '
            'the real dispatchers, lock-step with the reference server model',
            'All protocol errors over 12 codes x 3 messages x 11 data shapes (base class, registered subclass, standard classes) and 20 '
            'exception types (incl. the library\'s own non-protocol exceptions, unrenderable exceptions), as call / notification / at each '
            'batch position, five dispatcher flavours; plus every C01 text judged by the strict JSON recogniser and the reference server: '
            'codes -32700/-32600/-32601/-32602/-32603/-32000 as specified, application errors verbatim, no exception detail in the response.',
            'trusted: mc/jsonstrict.py, mc/refmodel/server.py; message/data of library-generated errors are unconstrained (L4)',
            'DESIGN.md section 5, C03'),
    'C04': ('exhaustive enumeration of generated programs (all valid python signatures up to a size bound) x all argument lists / '
            'mappings, executed on the real dispatchers; python\'s own binding of a twin function is the reference',
            'All signatures with <= 4/5 parameters over positional-only / positional-or-keyword / keyword-only / *args / **kw x defaults, '
            'context parameter none / by name at every position / first positional (also positional-only) / view constructor (also with a '
            'coinciding name), function / coroutine / view method, registered directly or through a merged registry, truthy and falsy '
            'context objects, the same function registered twice and a sibling with an equal signature; every positional list of length 0..5 '
            '(incl. null / 0 / "" values) and every named mapping over subsets of names + unknown + context name.',
            'trusted: CPython function call semantics as oracle; variadic / positional-only signatures are open known findings',
            'DESIGN.md section 5, C04'),
    'C05': ('exhaustive enumeration of constructible messages over a closed JSON value alphabet, round-tripped through both '
            'encoders on the real classes; field-wise, wire-exactness, fixpoint and error-class oracles',
            'Every request / response / error / batch over a value alphabet closed under list/object construction, all id typings, all '
            'registered (incl. code 0) and several unregistered codes, empty messages, absent vs null data, four error base classes '
            '(default, custom, two documented self-resolving hierarchies), batches of <= 4/5 elements and batch-level errors: serialise '
            '(two encoders) -> text -> deserialise gives equal fields, exact member sets, the right error class, an identical second wire form.',
            'trusted: json.dumps/json.loads, mc/jsonstrict.py; values outside the alphabet are not covered',
            'DESIGN.md section 5, C05'),
    'C06': ('exhaustive product enumeration of member alphabets for from_json plus stateless DFS over all append/extend '
            'histories of the real batch classes in lock-step with a list+set reference model (no state merging)',
            'Full product of 17-value member alphabets for request, response (x 19 error shapes) and error objects, every non-object input, '
            'batches of <= 3 elements, batch-level objects: outcome is a message or DeserializationError (IdentityError for duplicates), '
            'invalid never accepted, valid accepted with equal fields. All append/extend/constructor histories with <= 5/6 ids over '
            '{1,2,"1",0,null}, strict on/off, both batch classes: outcome and contents equal the model after every step.',
            'trusted: mc/refmodel/wire.py; lenient points L2, missing response id, empty response array',
            'DESIGN.md section 5, C06'),
    'C07': ('exhaustive enumeration of call notations x configurations with the random id generators as environment choice points '
            '(all answers enumerated), real client wired to the real dispatcher in-process; the registered python function called '
            'directly is the reference; the same enumeration end to end through the real client backends and web-framework integrations',
            '5 single-call and 6 batch notations x 4 sync/async pairings x 7 id generators (incl. ids from 0) x strict on/off x 9 method '
            'behaviours (typed / falsy-data / hierarchy / unregistered errors, library and ordinary exceptions, underscore names) x '
            'argument shapes; all call/notify strings up to length 4: one valid request document per send with distinct ids, caller gets the '
            'direct call\'s value / typed exception, every function runs once, notations interchangeable, id collisions surface at build time.',
            'trusted: direct python call + JSON normalisation as oracle; random.randint / random.choice / uuid.uuid4 replaced by the explorer',
            'DESIGN.md section 5, C07'),
    'C08': ('exhaustive enumeration of every response document an adversarial server can return (environment choice '
            'exploration) against the real sync/async client, judged by a reference id-matcher',
            'For batches of 1..3/4 calls (ids from 1 and from 0): every response array of length 0..n+1 over {id of call i, unknown id, '
            'type-confused id, null} x {success, error}, junk / boolean-id elements at every position, non-array bodies, batch-level '
            'errors; single calls over 6 request ids x 5 id relations x 6 payloads; strict on/off, sync/async, call/send, custom '
            'pluggable classes and error hierarchies: strict mismatches raise IdentityError, invalid bodies DeserializationError, '
            'accepted results are attributed to the calls in call order and linked to their requests.',
            'trusted: reference matcher inside props/c08.py; L6 null-id entries; which of several element errors is raised is free',
            'DESIGN.md section 5, C08'),
    'C09': ('stateless exploration of the complete tree of per-attempt transport outcomes (environment choice points) for every '
            'retry configuration on the real sync/async client, lock-step with a reference retry/backoff model',
            'attempts 0..4/6 x code sets x exception sets x {single, batch, notification, all-notification batch} x sync/async with '
            'all outcome sequences; 80 backoff parameterisations (caps incl. 0, scripted jitter) x attempts 0..3/6; 7 strategy placements: '
            'number and identity of sends, every requested pause (time.sleep / asyncio.sleep recorders, virtual clock) and the object '
            'reaching the caller equal the reference.',
            'trusted: reference model in props/c09.py; time.sleep and asyncio.sleep are the only clocks; L7 Fibonacci indexing',
            'DESIGN.md section 5, C09'),
    'C10': ('exhaustive schedule enumeration on a virtual asyncio event loop: every order in which the pending suspension points '
            '(gates) of methods, middlewares and error handlers can complete is executed on the real AsyncDispatcher',
            'Batches of 1..4 elements (thorough: 4 over all 16 types, 5 over 4 kinds) with 0..2 suspension points per element, failing / '
            'notification / plain-function / unknown-method / stateful-view elements, coroutine and plain-function middlewares, error-handler '
            'gates, concurrent and sequential mode: responses in request order with own id and payload, every method and middleware once, '
            'no deadlock; sequential mode never has two elements in flight.',
            'trusted: mc/vloop.py (FIFO ready queue as asyncio guarantees, stock Task/gather/Future); suspension only at gates',
            'DESIGN.md section 5, C10'),
    'C11': ('lock-step product exploration of the sync / async twins over the exhaustive generators of the other checks (differential '
            'oracle): every input / transport script / choice sequence is executed on both halves and the observations compared',
            'Dispatcher vs AsyncDispatcher (coroutines / plain functions / sequential batches) on the C01 corpora, the C02 documents, the '
            'C03 failure table and the C12 configurations; AbstractClient vs AbstractAsyncClient on every leaf of the C09 and C19 choice '
            'trees (same choices replayed), every C08 response document, the C07 notations and two deliveries through one batch wrapper: '
            'identical documents, codes, executions, events, results, exceptions and sleep sequences.',
            'trusted: observation digests (clientrun.summarize, common_server.obs_key); KeyboardInterrupt and CancelledError are identified',
            'DESIGN.md section 5, C11'),
    'C12': ('exhaustive enumeration of middleware stacks x error-handler tables x request kinds on the real dispatchers, lock-step with '
            'the reference server extended by an explicit middleware / handler layer; event logs compared',
            'All stacks of 0..4/5 middlewares over {pass-through, short-circuit, request-rewriting, response-rewriting} x 9 handler tables x '
            '18 request kinds x sync / async / async sequential; lists and one-shot iterables; every request served twice by the same '
            'dispatcher: who ran, in which order, with which request, context and error, and the response, equal the reference both times.',
            'trusted: reference layer in props/c12.py + mc/refmodel/server.py; middlewares and handlers do not raise',
            'DESIGN.md section 5, C12'),
    'C13': ('(a) exhaustive enumeration of request histories without state merging, differential against a fresh dispatcher; '
            '(b) invariant over growing histories with weak references and cache sizes; (c) CHESS-style exhaustive thread '
            'interleaving exploration with preemption bounding (sys.settrace line-level scheduler over real threads); (c\') exhaustive enumeration of the completion orders of overlapping asynchronous dispatches on a virtual event loop',
            'All histories of length <= 2/3 over 33 requests (functions, context / context-less / validated views, shared validators, '
            'handlers) followed by all probes equal the fresh answers; after 1110 dispatches (same request or all different) no context / '
            'view / per-request object is alive and nothing grows; 19 request pairs on 2 threads (<= 2 preemptions) and 3 triples on 3 '
            'threads (<= 1) on a shared Dispatcher, a switch possible at every pjrpc source line: each thread gets its solo answer.',
            'trusted: mc/threadsched.py (self-tested on a planted lost update); GIL-atomic C code is outside the model; no pools beyond 3 threads',
            'DESIGN.md section 5, C13'),
    'C14': ('exhaustive enumeration of validated programs (signature x schema fragments / annotations) x argument values on the real '
            'dispatchers; reference = python binding + a small evaluator of the schema fragment language / pydantic.TypeAdapter',
            'jsonschema: signatures <= 2/3 params x fragments {type, enum, bounds} x required subsets x additionalProperties x exclusion '
            'predicate x all argument tuples; pydantic: 10 annotations (custom validators, None / mutable defaults) x coerce on/off x 21 '
            'values; context parameter under each validator, double registration, several validator objects, same-named methods, view '
            'methods with predicates: executed iff binds and conforms, else -32602 with JSON data and no execution.',
            'trusted: 30-line fragment evaluator, pydantic.TypeAdapter for single values',
            'DESIGN.md section 5, C14'),
    'C15': ('explicit-state breadth-first search over registration histories on real MethodRegistry objects with canonical state hashing, '
            'lock-step with a dict reference model; every canonical state attached to both dispatchers and probed',
            'All histories of total cost <= 5/6 over add / add(name) / add_methods / view / view(prefix) / decorator spellings / base and '
            'derived views / merge (operands = reachable registries, 3 levels) on prefixes None / a / a.b: registry contents equal the model '
            'after every step; every state attached (also twice, modified in between) to both dispatchers: each registered name reaches its '
            'function, near misses and private / dunder / non-callable view members answer -32601.',
            'trusted: canonicalisation (prefix, name->function map) - sound because a registry\'s future depends only on that map and its prefix',
            'DESIGN.md section 5, C15'),
    'C16': ('exhaustive enumeration of ordered method sets x annotation bundles x extractor stacks x document kinds with repeated '
            'generation on the real spec generators; invariants + differential (method documented alone, fresh generator) + official meta-schemas; documents fetched from the real integrations and every documented path#method replayed against the same application; preemption-bounded exploration of two threads generating from one specification object',
            'Ordered sets of 1..2/3 atoms from a 16-atom core (thorough: pairs from a 61-atom product) x 6 extractor stacks x {OpenAPI 3.1, '
            '3.0, OpenRPC} x endpoint prefixes / several endpoints x status-map / global-prefix variants x 2-3 generations, re-used '
            'specification objects (A, B, A, A+B, B), late error classes, aliases: JSON-encodable, valid against the vendored meta-schema '
            '(jsonschema 4, second stage), closed $refs, every method once, pure, each entry equal to the entry when documented alone.',
            'trusted: jsonschema 4.26 of the tooling venv and the vendored meta-schemas; annotation types outside the atom alphabet not covered',
            'DESIGN.md section 5, C16'),
    'C17': ('exhaustive enumeration of programs (signatures x context / exclusion x function / view x validator) with documents generated '
            'by the real spec generators fed back: every params object derived from the document is dispatched to the real dispatcher',
            'All signatures with <= 5/6 pk/ko parameters x defaults x nullable annotation x context {none, by name, positional} x exclusion '
            'predicate (by name, by Annotated marker) x function / view x {default, pydantic, pydantic extra=ignore} validators, double '
            'registration: documented names and required flags (OpenAPI, OpenRPC) equal what python binds; every params object over subsets '
            'of documented + undocumented + context + excluded names (also with a null member) is refused with -32602 iff it violates the published schema.',
            'trusted: the resolver of $ref inside the generated document (props/c17.py)',
            'DESIGN.md section 5, C17'),
    'C18': ('exhaustive enumeration of requests (media type x body x status function x path / endpoint) against the real HTTP integrations '
            'in-process, differential against a twin dispatcher called directly and across integrations; exhaustive request sequences of bounded length on one long-lived application, each reply compared with a fresh application; CHESS-style preemption-bounded exploration of two threads posting to one application',
            '{aiohttp, flask, werkzeug, werkzeug via wsgi_app} x 26 media types x 15 bodies x 4 status-by-error functions x 3 paths, '
            'additional endpoints (plain, sub-application / blueprint, child application, main endpoint among siblings): documented types '
            'are relayed with the dispatcher\'s document, JSON content type and status_by_error(codes); nothing -> empty 200; other types -> '
            '415 as an HTTP reply without executing anything; non-UTF-8 -> 400.',
            'trusted: werkzeug / flask test clients, aiohttp make_mocked_request + Application._handle (a raised HTTPException is the response)',
            'DESIGN.md section 5, C18'),
    'C19': ('stateless exploration of the complete tree of per-attempt outcomes incl. decode / identity failures and BaseException '
            'on the real sync/async client; invariant on the tracer event log of every execution; CHESS-style preemption-bounded exploration of two threads sharing one traced client; exhaustive completion orders of concurrent asynchronous attempts on a virtual event loop',
            'retry strategies of 0..3/4 attempts x 0..3 tracers (full, begin/end only, super-chaining, equal-but-distinct) x 4 request kinds x '
            'default/supplied trace context x sync/async x call / send / client(...) / proxy, also from inside an except block: every attempt '
            'has, for every tracer in order, one begin and exactly one completion (end with the attempt\'s response or error with the very '
            'exception), one context object per attempt, exception reaches the caller unchanged.',
            'trusted: instrumented Tracer subclasses; cancellation is modelled as CancelledError raised at the transport await',
            'DESIGN.md section 5, C19'),
    'C20': ('explicit-state level-synchronous breadth-first search over operation histories on the real PjRpcMocker (patching real '
            'sync and async clients) with canonical state hashing, lock-step with a dict-of-lists reference model plus a one-rotation '
            'look-ahead oracle in every state',
            'All histories of <= 4/5 operations over add (18 variants incl. raising callbacks) / replace at each index (also -1, once, error, '
            'callback) / remove / remove endpoint / call positional, named, unpatched method, id 0 / notification / batches over method '
            'pairs, 2 endpoints x 2 methods, passthrough off and on: every answer, the recorded calls and the next full rotation of answers '
            'equal the reference; sync and async agree.',
            'trusted: reference model in props/c20.py; state merging by patch table is made sound by the look-ahead probe and the table-shape discriminator',
            'DESIGN.md section 5, C20'),
}

# what later rounds added to each check (appended to the level text)
ADDENDA = {
    'C01': ' Also: nesting at 19 depths from 100 to 100000 around the interpreter\'s recursion limits, a method returning a JSON-encodable value that is not in JSON normal form, dispatchers configured with pass-through middlewares / identity error handlers. Round 5: a truthy non-boolean concurrent_batch, deep values echoed back, no handler task left running when dispatch returns. Round 6: a response text must be encodable as UTF-8; strings with escapes (lone surrogates) are echoed back. Round 7: long client text of 2-, 3- and 4-byte characters at every position (G4), documents served with DEBUG logging on (G5), response classes with a truth value of their own. Round 9: batches in which several ids are repeated, of mixed types.',
    'C02': ' Also: batches whose elements pass equal-valued arguments of different JSON types (1 / 1.0 / true), long batches at 21 lengths up to 1001, methods registered through each public route after they were first requested. Round 5: every method validated by one PydanticValidator (flavours sync-pd / async-pd), null arguments, deep values echoed back (L5 leniency). Round 6: a stateful class based view registered without a context. Round 7: handling failures before the method body (-32603) as calls and as notifications, alone and in batches; response classes whose error responses are falsy. Round 9: flavours served with DEBUG logging on.',
    'C03': ' Also: dispatchers with pass-through middlewares / identity handlers, deep nesting judged with the L5 leniency. Round 5: each error response is read back through the client-side Response.from_json and compared with what the method raised. Round 6: method bodies that themselves make a call python refuses (TypeError with call-refusal wording). Round 7: an application error class with its own constructor, dispatchers with identity error handlers for every failure. Round 8: every unexpected exception also with DEBUG logging on.',
    'C04': ' Also: static and class methods of views, coroutine functions behind plain decorators. Round 5: handlers registered as functools.partial objects and as instances of class based decorators. Round 6: parameters named like the library\'s own names (signature, method, params, self ...); a method that consumes its arguments in place with the identical request sent again. Round 7: returned (not raised) error objects and falsy values become the result, error handlers not run. Round 8: an object as the single positional argument; handlers whose annotations cannot be evaluated.',
    'C05': ' Also an aliasing oracle: containers of a deserialised message are modified in place and later deserialisations must be unaffected. Round 5: the server-side encoder class, messages nested inside other values, non-strict batch containers. Round 6: a registered error class with a class attribute named data. Round 9: messages whose params / result / error data are nested 50..750 deep, through the whole round trip.',
    'C06': ' Also the typed entry points (from_json on classes that have a code of their own, Response.from_json with such an error_cls). Round 5: has_error / is_notification must follow the contents after every (also refused) append / extend. Round 6: valid messages whose members are nested 100..1400 deep. Round 7: the number 2.0 as protocol version; a second pass with warnings turned into errors. Round 9: non-finite floats in every member position, all standard codes with the server modules imported, several repeated ids per batch, and a child pass under python -O (strictness must not rest on assert statements).',
    'C07': ' Also END TO END: the four real client backends (requests, httpx sync / async, aiohttp) through the three real web-framework integrations in-process; methods registered as coroutine-returning plain functions / callable objects / behind one shared decorator; a refused batch[...] repeated on the same wrapper. Round 5: other endpoints added after the main one in every end-to-end application, a stateful view registered without context, hand-built non-strict batches. Round 7: dicts whose keys are of several JSON-legal python types as arguments and as return value. Round 9: a client configured with its own request class - every notation, notifications and batch notations included, puts objects of that class on the wire.',
    'C08': ' Also message-less / ill-typed error objects for registered codes and non-strict request containers. Round 5: result together with a falsy error member, batches extended through item access after add(). Round 7: requests passed inline stay linked to their responses, calls sharing an id in a non-strict request container, and (E4) 2-3 single calls in flight on one asynchronous client answered with their own / another pending call\'s / an unknown id under every completion order. Round 8: repeated ids carrying identical payloads; version strings that are substrings of 2.0.',
    'C09': ' Also: two requests in a row through one long-lived client / strategy object, lenient clients whose transport hands back an error reply to a notification; a send beyond n+1 ends the execution and is reported. Round 5: a listed code in the reserved server-error range, not-JSON / not-a-response / identity failures as attempts, and the PHYSICAL sends of the real requests backend with its default session (the call into urllib3\'s connection pool is the scripted environment). Round 6: the harness owns time.time / monotonic / perf_counter and attempts can take virtual time; listed code 0; a per-request strategy replaces (never merges with) the client-wide one; answered batches with a failed member are not re-sent. Round 7: backoffs configured by position in the documented parameter order. Round 9: unlisted exceptions raised from listed ones; the real httpx backends answered 429 / 503 with Retry-After; short-lived per-request strategies on one long-lived client.',
    'C10': ' Also falsy / numeric ids and (not exhaustive over schedules) batches of 5..257 elements under three fixed completion orders. Round 5: coroutine-returning plain functions, a code-specific rewriting handler next to the generic one, per-element context variables set by a middleware. Round 6: dispatchers obtained from the aiohttp integration\'s keyword options; failures before the method body and TypeError-raising plain functions; a handler that writes into the error it is given. Round 7: a response class whose error responses are falsy. Round 9: a middleware that fails for notifications - dispatch may raise, an answer if given lists exactly the calls.',
    'C11': ' Also the four real client backends compared over 7 924 scripted HTTP answers (status x content type x body x raise_for_status x strict x default content type). Round 5: differences in later requests of one long-lived client are part of the comparison. Round 6: a configured json_encoder / json_dumper must be handed the same objects by both halves. Round 7: replies that declare and use a charset other than utf-8. Round 9: dispatcher twins whose json_dumper ignores the proposed encoder class.',
    'C12': ' Also requests failing with -32603 before the method body, the same handler / middleware object listed several times (identical and equal-but-distinct callables), suspending middlewares in concurrent batches. Round 5: error handlers that return Futures. Round 6: error code 0; handlers that enrich the error in place with several internal failures in one batch. Round 7: handler mappings filled per-code first; a middleware that appends to request.params in place, requests without a params member (every request served twice). Round 9: a 300-element batch through short stacks.',
    'C13': ' Also retention after cancelled asynchronous dispatches and 2-3 overlapping dispatch() calls on one AsyncDispatcher under every completion order. Round 5: two middlewares on every dispatcher (thread schedules cover the very first dispatches), retention of the framework\'s request objects through the werkzeug / aiohttp integrations, handlers that come and go while the process-wide default validator lives on. Round 6: interpreter-wide settings unchanged after every case; a decoder class that keeps per-document state. Round 7: allocated memory (tracemalloc) over 1000 further requests, requests with extension members and ever new ids, an application encoder plus unencodable results inside the histories. Round 8: aiohttp requests cancelled while suspended in a method; allocated memory of the three integrations under ever new error codes.',
    'C14': ' Also schemas that declare their dialect (draft-03 / -04 / -06 / -07 keywords), constraints in Annotated metadata, bodies that modify their arguments in place with every such call made twice, equal-comparing signatures under one validator. Round 5: context-only / parameterless methods called in turn with params omitted / [] / {}. Round 6: variadic methods called without extras under each validator (open known finding for the pydantic validator), a Decimal-bounded parameter, requests dispatched without a context, one function registered twice with two schemas. Round 7: model configuration extra=ignore / allow, positional-only parameters (refusals), dispatchers whose loader yields Decimal values. Round 8: the annotation keyword default in schemas; the schema object handed to the validator stays untouched. Round 9: a schema configured on the validator object with bare decorators; one validator shared by methods with different validate() arguments in every order of calls.',
    'C15': ' Also one decorator object applied to several functions, DEBUG logging switched on, names requested before they are registered through dispatcher.registry. Round 5: names re-registered through each public route after they had been called, a registered view method whose constructor fails for the request. Round 6: a registry and the dispatchers it was attached to do not share their tables; add_methods() registers its arguments in order. Round 7: names that are (str, Enum) members; E5 - a name registered again (add / add_methods / merge / view) while another thread dispatches it, <= 1/2 preemptions at line granularity. Round 8: view members behind functools.lru_cache / class based decorators.',
    'C16': ' Also opaque annotations (refusal accepted, omission not), error classes sharing a code, and the documents as SERVED by the aiohttp / flask integrations: every documented path#method is POSTed back to the same application and must reach its method. Round 5: an extension mounted on a blueprint with a url prefix, several specifications served by one aiohttp application, two threads generating from one specification object (E5 at function-entry granularity). Round 6: served documents - same-named methods with different signatures per endpoint (one open known finding without component_name_prefix), enum members in user documentation. Round 7: two preemptions in the thread part in both tiers; the document served again after a later registration and re-registration. Round 8: content descriptors with required unset, handlers carrying a PEP 702 marker, factory-made handlers sharing a qualified name.',
    'C17': ' Also long-lived specification objects shared by all programs, method names differing only in separators / case (one open known finding), a context designated positionally under another name. Round 5: static / class methods of views, one long-lived pydantic validator for all programs. Round 6: Field(...) objects as python defaults under the pydantic validator. Round 7: parameter names that are BaseModel attributes (schema, copy, json ...), JSON-Schema validated methods with a context, requests dispatched without a context object. Round 8: an exclusion predicate keyed on \'default is None\', handlers behind functools.wraps with their own __signature__, validation marked after registration and merged.',
    'C18': ' Also charset / version parameters, request sequences of length 2-3 on one long-lived application (aiohttp replies read from what the response wrote to a recording payload writer), the process-wide default content type as a configuration. Round 5: unbindable-parameter bodies, Accept / other request headers, a result with keys of several types (open known finding for flask\'s main endpoint), two threads posting to one werkzeug / flask application under every schedule with <= 1/2 preemptions. Round 6: applications mounted under an outer application / blueprint prefix, a flask hook that reads the body first, chunked request bodies, main-endpoint middlewares vs added endpoints, a status function whose answer changes between replies, escaped unpaired surrogates echoed back. Round 7: status codes without a name in http.HTTPStatus, two extension objects alive in one process (both orders of initialisation), an integration that cannot be initialised is a violation. Round 9: two pjrpc Applications on one aiohttp application with different status functions; a specification with an error status map and no status function; two application objects alive in one process for every integration.',
    'C19': ' Also tracers whose handlers are instance attributes (set before / after the client is built) and two threads sharing one traced client under every schedule with <= 1/2 preemptions. Round 5: the library\'s LoggingTracer among the tracers, a transport re-raising one stored exception object, parameters that cannot be serialised, concurrent asynchronous attempts sharing one trace context under every completion order. Round 6: answered batches in which one call failed. Round 7: DEBUG logging on when the client is constructed; under overlap every event of an attempt carries that attempt\'s own trace context (default / shared / caller-supplied per call). Round 9: a tracer that raises from its completion handler.',
    'C20': ' Also callbacks that make nested calls through the same mocker (a watchdog turns an unanswered call into a violation) and by-name parameters called id / callback / method. Round 5: batches of one element, the real client backends under the mocker with 12 differently spelled endpoint urls. Round 6: passthrough to the real backends\' transports, configured falsy / absent error data compared. Round 7: the identical request text sent repeatedly to callbacks that consume their container arguments; every history <1..3 patches, 0..4 calls, remove(method|endpoint), 1..3 new patches, full rotation> with every step compared. Round 8: an empty batch sent to an endpoint without patches; a callback that calls the same mocked method again.',
}

NOT_YET = 'check not built yet (planned, see DESIGN.md section 5)'

ALL = ['C%02d' % i for i in range(1, 21)]


def main():
    checks = []
    for pid in ALL:
        if pid not in CHECKS:
            continue
        tech, text, note, ref = CHECKS[pid]
        checks.append(dict(
            property_id=pid,
            quick_cmd='./check %s --tier quick' % pid,
            thorough_cmd='./check %s --tier thorough' % pid,
            evidence_file='/verif/evidence/%s.json' % pid,
            replay_cmd_template='./check %s --replay {path}' % pid,
            engine='mc',
            level_claimed=dict(category='model_checking', text=text + ADDENDA.get(pid, ''), design_ref=ref),
            level_note=note,
            technique=tech,
        ))
    m = dict(
        version=1,
        setup_cmd='./setup.sh',
        hooks=dict(
            guard='PJRPC_VERIF',
            enable='no source hooks exist: every observation point is public API; ./check exports PJRPC_VERIF=1 for '
                   'uniformity and imports pjrpc from /repo (or $PJRPC_REPO) working tree',
            baseline_off_cmd='cd /repo && /venv/bin/python -m pytest -ra -q -p no:cacheprovider --timeout=900 '
                             '--continue-on-collection-errors',
            source_commits=[],
            add_only=True,
        ),
        engines=[dict(name='mc', path='/verif/mc', serves_properties=sorted(CHECKS),
                      kind_free_text='home-grown explicit-state / stateless explorer for Python: product '
                                     'enumeration, BFS over histories, choice-point DFS, virtual asyncio loop, '
                                     'settrace thread scheduler; reference models run in lock-step with the real code')],
        checks=checks,
        notes='Exit 0 = held on everything explored (KNOWN-FINDING lines allowed), 1 = VIOLATION, 2 = harness error. '
              'known findings: /verif/known_findings.json',
        not_applicable=[dict(property_id=p, reason=NOT_YET) for p in ALL if p not in CHECKS],
    )
    with open(os.path.join(HERE, 'MANIFEST.json'), 'w') as f:
        json.dump(m, f, indent=1)
    print('MANIFEST.json: %d checks, %d not yet' % (len(checks), len(m['not_applicable'])))


if __name__ == '__main__':
    main()
