#!/bin/bash
# detection regression: every repaired defect (revert of its fix: commit) and every sanity mutant must still be reported
# by the check of its property.   usage: tools/regress.sh [reverts|mutants|all]
cd "$(dirname "${BASH_SOURCE[0]}")/.." || exit 2
what=${1:-all}
rc=0
if [ "$what" != mutants ]; then
  /venv/bin/python - <<'PY' > /var/tmp/pjrpc-verif-regress.lst
import json
d = json.load(open('known_findings.json'))
seen = set()
for f in d['findings']:
    if f['status'] == 'fixed' and (f['commit'], f['property']) not in seen:
        seen.add((f['commit'], f['property']))
        print(f['commit'], f['property'])
PY
  while read c p; do
    case $c in
      # later fix: commits rewrote the same lines, the reverse diff no longer applies: the defect is re-created by hand in
      # mutants/c02-revert-052739d-*.patch and mutants/c01-revert-9562468-*.patch
      052739d*|9562468*) echo "revert $c $p: covered by the hand-ported mutant"; continue;;
      # the defect needed the lru_cache that fix 8933d14 removed: reverting it changes nothing any more
      41970b9*) echo "revert $c $p: superseded by 8933d14 (nothing to re-create)"; continue;;
    esac
    out=$(tools/try_patch.py --revert $c --skip-tests $p 2>&1 | tail -1)
    echo "revert $c $p: $out"
    echo "$out" | grep -q "detected_by=\['" || rc=1
  done < /var/tmp/pjrpc-verif-regress.lst
  rm -f /var/tmp/pjrpc-verif-regress.lst
fi
if [ "$what" != reverts ]; then
  for m in mutants/*.patch; do
    p=$(basename $m | cut -c1-3 | tr c C)
    out=$(tools/try_patch.py --patch $m --skip-tests $p 2>&1 | tail -1)
    echo "mutant $(basename $m) $p: $out"
    echo "$out" | grep -q "detected_by=\['" || rc=1
  done
fi
exit $rc
