"""
Owns the two clocks pjrpc's retry loops use: time.sleep and asyncio.sleep are replaced (before pjrpc is imported)
by recorders, so no check ever waits in real time and every requested delay is observed.
"""
import asyncio
import time

LOG = []            # ('sync' | 'async', delay) in program order
NOW = [1000000.0]   # the virtual wall clock: time.time / time.monotonic / time.perf_counter read it; sleeping and slow attempts advance it
_real_sleep = time.sleep
_real_asleep = asyncio.sleep


def _sleep(delay):
    LOG.append(('sync', delay))
    if isinstance(delay, (int, float)) and delay > 0:
        NOW[0] += delay


def advance(seconds):
    """an operation of the environment (a slow transport) takes this long"""
    NOW[0] += seconds


def _now():
    return NOW[0]


async def _asleep(delay, result=None):
    LOG.append(('async', delay))
    # still go through the loop's timer machinery (virtual clock), so ordering effects are real
    return await _real_asleep(delay, result)


def install():
    time.time = time.monotonic = time.perf_counter = _now
    time.sleep = _sleep
    asyncio.sleep = _asleep
    asyncio.tasks.sleep = _asleep


def take():
    out = list(LOG)
    del LOG[:]
    return out
