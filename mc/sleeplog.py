"""
Owns the two clocks pjrpc's retry loops use: time.sleep and asyncio.sleep are replaced (before pjrpc is imported)
by recorders, so no check ever waits in real time and every requested delay is observed.
"""
import asyncio
import time

LOG = []            # ('sync' | 'async', delay) in program order
_real_sleep = time.sleep
_real_asleep = asyncio.sleep


def _sleep(delay):
    LOG.append(('sync', delay))


async def _asleep(delay, result=None):
    LOG.append(('async', delay))
    # still go through the loop's timer machinery (virtual clock), so ordering effects are real
    return await _real_asleep(delay, result)


def install():
    time.sleep = _sleep
    asyncio.sleep = _asleep
    asyncio.tasks.sleep = _asleep


def take():
    out = list(LOG)
    del LOG[:]
    return out
