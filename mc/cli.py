"""command line of the checks: ./check <Cxx> [--tier quick|thorough] [--replay FILE]"""
import argparse
import importlib
import json
import logging
import os
import sys
import traceback


def main(argv=None):
    ap = argparse.ArgumentParser()
    ap.add_argument('prop')
    ap.add_argument('--tier', default=os.environ.get('VERIF_TIER') or 'quick', choices=['quick', 'thorough'])
    ap.add_argument('--replay')
    ap.add_argument('--workers', type=int, default=int(os.environ.get('VERIF_WORKERS') or 0))
    args = ap.parse_args(argv)

    try:
        seed = int(os.environ.get('VERIF_SEED') or 0)
    except ValueError:
        seed = 0

    repo = os.environ.get('PJRPC_REPO') or '/repo'
    sys.path.insert(0, repo)
    logging.disable(logging.CRITICAL)

    from mc import core, sleeplog
    sleeplog.install()
    prop = args.prop.upper()
    try:
        import pjrpc
        if not os.path.abspath(pjrpc.__file__).startswith(os.path.abspath(repo) + os.sep):
            raise core.HarnessError('pjrpc imported from %s, not from %s' % (pjrpc.__file__, repo))
        mod = importlib.import_module('props.%s' % prop.lower())
        if args.replay:
            with open(args.replay) as f:
                doc = json.load(f)
            return mod.replay(doc)
        workers = args.workers or min(16, os.cpu_count() or 1)
        ctx = core.Ctx(prop, args.tier, seed, workers)
        mod.run(ctx)
        return ctx.finish()
    except core.HarnessError as e:
        print('ERROR harness: %s' % e)
        return 2
    except Exception:
        print('ERROR harness crashed:')
        traceback.print_exc()
        return 2


if __name__ == '__main__':
    sys.exit(main())
