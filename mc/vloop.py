"""
E4 - virtual asyncio event loop.  No selector, no threads, virtual clock.  The explorer pops the
ready queue itself (FIFO, as asyncio guarantees) and decides which pending *gate* (a future only
the explorer resolves) completes next; timers fire by advancing the virtual clock when nothing is
ready and no gate is chosen.  Stock Task / gather / Future / sleep are used unchanged.
"""
import asyncio
import heapq
from asyncio import events

from .core import HarnessError


class Deadlock(Exception):
    pass


class VLoop(asyncio.BaseEventLoop):
    def __init__(self):
        super().__init__()
        self._vtime = 0.0
        self.gates = []          # pending Gate objects in creation order
        self.sleeps = []         # clock advances performed (delay values) - observable "sleep" log
        self.unhandled = []      # what reached the loop exception handler
        self.set_exception_handler(lambda loop, ctx: self.unhandled.append(ctx))
        self.steps = 0

    # -- BaseEventLoop plumbing ---------------------------------------------------------------
    def time(self):
        return self._vtime

    def _process_events(self, event_list):
        pass

    def _write_to_self(self):
        pass

    # -- driving ------------------------------------------------------------------------------
    def run_ready(self):
        ready = self._ready
        while ready:
            h = ready.popleft()
            if not h._cancelled:
                self.steps += 1
                h._run()

    def fire_next_timer(self):
        sched = self._scheduled
        while sched:
            h = heapq.heappop(sched)
            h._scheduled = False
            if h._cancelled:
                continue
            if h._when > self._vtime:
                self.sleeps.append(round(h._when - self._vtime, 9))
                self._vtime = h._when
            self._ready.append(h)
            return True
        return False

    def pending_gates(self):
        self.gates = [g for g in self.gates if not g.fut.done()]
        try:
            # canonical order by label, so that a schedule does not depend on task creation order
            # (asyncio.wait / as_completed iterate over sets of futures, whose order the loop does not own)
            return sorted(self.gates, key=lambda g: g.label)
        except TypeError:
            return self.gates

    def gate(self, label):
        g = Gate(self, label)
        self.gates.append(g)
        return g

    def run(self, coro, choose=None, max_steps=100000, before_choice=None):
        """
        Run coro to completion.  choose(labels) -> index picks which pending gate is released at each
        quiescent point (default: the oldest).  Returns the coroutine's result or raises its exception.
        """
        prev = events._get_running_loop()
        events._set_running_loop(self)
        try:
            task = self.create_task(coro)
            while True:
                self.run_ready()
                if task.done():
                    break
                if self.steps > max_steps:
                    raise HarnessError('virtual loop horizon exceeded (%d steps)' % max_steps)
                pend = self.pending_gates()
                if pend:
                    if before_choice is not None:
                        before_choice(pend)
                    idx = choose([g.label for g in pend]) if choose else 0
                    pend[idx].release()
                elif self.fire_next_timer():
                    pass
                else:
                    task.cancel()
                    self.run_ready()
                    raise Deadlock('no ready handle, no timer, no pending gate, main task not done')
            # drain what is left (callbacks scheduled by completion)
            self.run_ready()
            return task.result()
        finally:
            events._set_running_loop(prev)


class Gate:
    """a suspension point only the explorer resolves"""

    def __init__(self, loop, label):
        self.label = label
        self.fut = loop.create_future()

    def release(self, exc=None):
        if exc is not None:
            self.fut.set_exception(exc)
        else:
            self.fut.set_result(None)

    def __await__(self):
        return self.fut.__await__()


def run_simple(coro):
    """run a coroutine that never waits on a gate on a fresh virtual loop"""
    loop = VLoop()
    try:
        return loop.run(coro)
    finally:
        loop.close()
