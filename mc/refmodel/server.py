"""
S3 - reference JSON-RPC 2.0 server: a pure function from a parsed request document and a table of
method *behaviours* to the set of acceptable answers and the calls that must have been executed.
Written from the property statements / the JSON-RPC 2.0 specification, not from pjrpc's code.
"""
from .wire import INVALID, LENIENT, VALID, request_object_class

REQ = '__REQUIRED__'          # marker: parameter without default
ABSENT = '__ABSENT__'         # marker: error data member absent
NOTHING = '__NOTHING__'       # marker: no response at all


def typed_eq(a, b):
    """JSON equality that keeps JSON types apart (1 != 1.0 != true, "1" != 1); iterative, so any nesting depth is fine"""
    stack = [(a, b)]
    while stack:
        a, b = stack.pop()
        if type(a) is not type(b):
            return False
        if isinstance(a, list):
            if len(a) != len(b):
                return False
            stack.extend(zip(a, b))
        elif isinstance(a, dict):
            if a.keys() != b.keys():
                return False
            stack.extend((a[k], b[k]) for k in a)
        elif isinstance(a, float) and a != a:
            if b == b:
                return False
        elif a != b:
            return False
    return True


def bind_ref(spec, params):
    """
    spec: [(name, default | REQ)] - positional-or-keyword parameters.  Returns the mapping a direct
    python call f(*list) / f(**mapping) would bind (defaults filled), or None if it could not bind.
    """
    names = [n for n, _ in spec]
    if isinstance(params, list):
        if len(params) > len(names):
            return None
        bound = dict(zip(names, params))
    elif isinstance(params, dict):
        if any(k not in names for k in params):
            return None
        bound = dict(params)
    else:
        bound = {}
    for n, d in spec:
        if n not in bound:
            if isinstance(d, str) and d == REQ:
                return None
            bound[n] = d
    return bound


def _err(id, code, exact=None):
    return dict(id=id, code=code, exact=exact)


def ref_call(o, table):
    """o is a VALID request object. -> (answer-without-id-decision, calls)"""
    name = o['method']
    beh = table.get(name)
    if beh is None:
        return dict(code=-32601, exact=None), []
    if beh['kind'] == 'internal':
        # handling fails before the method could be called (broken view constructor / validator / signature): internal error
        return dict(code=-32603, exact=None, noleak=True), []
    bound = bind_ref(beh['params'], o.get('params'))
    if bound is None:
        return dict(code=-32602, exact=None), []
    calls = [(name, bound)]
    kind = beh['kind']
    if kind == 'viewstate':
        return dict(result=[bound['x']]), calls
    if kind == 'ret':
        result = beh['result'](bound) if callable(beh.get('result')) else bound
        if beh.get('normalise'):
            import json
            result = json.loads(json.dumps(result))      # what the value looks like once it went through JSON
        return dict(result=result), calls
    if kind == 'perr':
        return dict(code=beh['code'], exact=(beh['code'], beh['message'], beh.get('data', ABSENT))), calls
    if kind == 'boom':
        return dict(code=-32000, exact=None, noleak=True), calls
    raise AssertionError(kind)


def ref_element(o, table):
    """
    one VALID/LENIENT request object -> list of alternatives (answer | NOTHING, calls).
    L1: an explicit "id": null is a notification for pjrpc; answering with id null is also allowed.
    """
    body, calls = ref_call(o, table)
    if 'id' not in o:
        return [(NOTHING, calls)]
    if o['id'] is None:
        return [(NOTHING, calls), (dict(id=None, **body), calls)]
    return [(dict(id=o['id'], **body), calls)]


REJECT = dict(id=None, code=-32600, exact=None)


def ids_duplicate(elems):
    seen = []
    for o in elems:
        if 'id' in o and o['id'] is not None:
            for s in seen:
                if typed_eq(s, o['id']):
                    return True
            seen.append(o['id'])
    return False


def expected(doc, table, max_batch_size=None):
    """
    doc: parsed JSON value of the request text.
    -> list of acceptable alternatives, each (answer, calls) with
       answer = NOTHING | response dict | list of response dicts
    """
    if isinstance(doc, list):
        if not doc:
            return [(REJECT, [])]
        classes = [request_object_class(o) for o in doc]
        if INVALID in classes:
            return [(REJECT, [])]
        alts = []
        if LENIENT in classes:
            alts.append((REJECT, []))           # L2: fractional ids may be refused
        if ids_duplicate(doc):
            return [(REJECT, [])]
        if max_batch_size is not None:
            if max_batch_size == 0:
                alts.append((REJECT, []))       # L3: 0 = "no limit" or "everything too large"
            elif len(doc) > max_batch_size:
                return [(REJECT, [])]
        # accepted: map over elements, in order
        combos = [([], [])]
        for o in doc:
            new = []
            for ans, calls in ref_element(o, table):
                for answers, allcalls in combos:
                    new.append((answers + ([ans] if ans is not NOTHING else []), allcalls + calls))
            combos = new
        for answers, allcalls in combos:
            alts.append((answers if answers else NOTHING, allcalls))
        return alts
    cls = request_object_class(doc)
    if cls == INVALID:
        return [(REJECT, [])]
    alts = [(REJECT, [])] if cls == LENIENT else []
    return alts + ref_element(doc, table)


# ---------------------------------------------------------------------------------------------
# comparing an observed answer with an expected one
# ---------------------------------------------------------------------------------------------
def match_response(obs, exp, leak_markers=()):
    """obs: parsed response object (python values); exp: response dict of the reference. -> problem | None"""
    if not isinstance(obs, dict):
        return 'not an object'
    if 'id' not in obs or not typed_eq(obs['id'], exp['id']):
        return 'id %r instead of %r' % (obs.get('id', '<absent>'), exp['id'])
    if 'result' in exp:
        if 'error' in obs or 'result' not in obs:
            return 'error %r instead of a result' % (obs.get('error'),)
        if not typed_eq(obs['result'], exp['result']):
            return 'result %r instead of %r' % (obs['result'], exp['result'])
        return None
    if 'error' not in obs or 'result' in obs:
        return 'result instead of error %s' % exp['code']
    e = obs['error']
    if not isinstance(e, dict) or not typed_eq(e.get('code'), exp['code']):
        return 'error code %r instead of %r' % (e.get('code') if isinstance(e, dict) else e, exp['code'])
    if exp.get('stamped') is not None and exp.get('exact') is None:
        # an error generated by the library (message unconstrained) whose data was set by a user handler
        if 'data' not in e or not typed_eq(e['data'], exp['stamped']):
            return 'error data %r instead of %r' % (e.get('data', '<absent>'), exp['stamped'])
    if exp.get('exact') is not None:
        code, message, data = exp['exact']
        if not typed_eq(e.get('message'), message):
            return 'error message %r instead of %r' % (e.get('message'), message)
        if data == ABSENT and isinstance(data, str):
            if 'data' in e:
                return 'error data %r instead of absent' % (e['data'],)
        elif 'data' not in e or not typed_eq(e['data'], data):
            return 'error data %r instead of %r' % (e.get('data', '<absent>'), data)
    return None


def match_answer(obs, exp):
    """obs: NOTHING | parsed response document; exp: NOTHING | dict | list -> problem | None"""
    if exp is NOTHING or obs is NOTHING:
        if exp is NOTHING and obs is NOTHING:
            return None
        return 'no response expected' if exp is NOTHING else 'response expected, got nothing'
    if isinstance(exp, list):
        if not isinstance(obs, list):
            return 'expected an array of %d responses' % len(exp)
        if len(obs) != len(exp):
            return '%d responses instead of %d' % (len(obs), len(exp))
        for i, (o, e) in enumerate(zip(obs, exp)):
            p = match_response(o, e)
            if p:
                return 'element %d: %s' % (i, p)
        return None
    if isinstance(obs, list):
        return 'array instead of a single response'
    return match_response(obs, exp)


def match_any(obs_answer, obs_calls, alts):
    """-> None if some alternative matches both answer and call log, else list of problems"""
    problems = []
    for ans, calls in alts:
        p = match_answer(obs_answer, ans)
        if p is None and not calls_eq(obs_calls, calls):
            p = 'executions %r instead of %r' % (obs_calls, calls)
        if p is None:
            return None
        problems.append(p)
    return problems


def calls_eq(a, b):
    if len(a) != len(b):
        return False
    for (n1, k1), (n2, k2) in zip(a, b):
        if n1 != n2 or not typed_eq(k1, k2):
            return False
    return True
