"""
S2 - JSON-RPC 2.0 wire predicates, written from the specification (https://www.jsonrpc.org/specification).
They work on values produced by mc.jsonstrict.parse (numbers are Num) *and* on plain python values.
"""
from ..jsonstrict import Num


def is_number(v):
    return isinstance(v, Num) or (isinstance(v, (int, float)) and not isinstance(v, bool))


def is_integer(v):
    if isinstance(v, Num):
        return v.is_int
    return isinstance(v, int) and not isinstance(v, bool)


def is_fractional(v):
    """a JSON number that is not an integer literal (1.5, 1.0, 1e3)"""
    if isinstance(v, Num):
        return not v.is_int
    return isinstance(v, float)


def valid_id(v, allow_null=True):
    """spec: String, Number or NULL - never a boolean, array or object"""
    if v is None:
        return allow_null
    if isinstance(v, bool):
        return False
    return isinstance(v, str) or is_number(v)


def response_object_problem(o):
    """None if o is a JSON-RPC 2.0 response object, else a reason"""
    if not isinstance(o, dict):
        return 'response is not an object'
    if o.get('jsonrpc') != '2.0':
        return 'jsonrpc member is not "2.0"'
    if 'id' not in o:
        return 'no id member'
    if not valid_id(o['id']):
        return 'id is not a string, a number or null: %r' % (o['id'],)
    has_r, has_e = 'result' in o, 'error' in o
    if has_r == has_e:
        return 'needs exactly one of result / error'
    extra = set(o) - {'jsonrpc', 'id', 'result', 'error'}
    if extra:
        return 'unexpected members %r' % sorted(extra)
    if has_e:
        p = error_object_problem(o['error'])
        if p:
            return p
    return None


def error_object_problem(e):
    if not isinstance(e, dict):
        return 'error is not an object'
    if 'code' not in e or not is_integer(e['code']):
        return 'error code is not an integer: %r' % (e.get('code'),)
    if not isinstance(e.get('message'), str):
        return 'error message is not a string'
    extra = set(e) - {'code', 'message', 'data'}
    if extra:
        return 'unexpected error members %r' % sorted(extra)
    return None


def response_document_problem(v):
    """None if v is one response object or a NON-EMPTY array of them"""
    if isinstance(v, list):
        if not v:
            return 'empty array is not a response document'
        for i, o in enumerate(v):
            p = response_object_problem(o)
            if p:
                return 'element %d: %s' % (i, p)
        return None
    return response_object_problem(v)


def codes_of(v):
    """the error codes a response document carries, one per response object (0 = success)"""
    def code(o):
        c = o['error']['code'] if 'error' in o else 0
        return int(c.lit) if isinstance(c, Num) else c
    if isinstance(v, list):
        return tuple(code(o) for o in v)
    return (code(v),)


# --- requests -----------------------------------------------------------------------------------
VALID, INVALID, LENIENT = 'valid', 'invalid', 'lenient'


def request_object_class(o):
    """VALID / INVALID / LENIENT (fractional id: pjrpc may reject, or accept and echo it - rule L2)"""
    if not isinstance(o, dict):
        return INVALID
    if o.get('jsonrpc') != '2.0' or not isinstance(o.get('jsonrpc'), str):
        return INVALID
    if not isinstance(o.get('method'), str):
        return INVALID
    if 'params' in o and not isinstance(o['params'], (list, dict)):
        return INVALID
    if 'id' in o:
        i = o['id']
        if not valid_id(i):
            return INVALID
        if is_fractional(i):
            return LENIENT
    return VALID
