"""
E5 - thread interleaving exploration with preemption bounding (CHESS style).
Real threading.Thread objects, one semaphore baton each: exactly one thread runs at any time.  Scheduling points
are sys.settrace 'line' events in frames whose source file lies under a given directory (the pjrpc package), so a
thread is never parked inside logging / json / inspect / functools internals.  At each point the explorer chooses
among the enabled threads in canonical order (running thread first, then ascending ids); switching away from a
running, still enabled thread costs one preemption, picking a successor when the running thread ended is free.
"""
import sys
import threading

from .core import HarnessError


class ThreadRun:
    def __init__(self, bodies, env, prefix_dirs, horizon=200000, granularity='line', name_prefixes=None):
        self.bodies = bodies
        self.env = env
        self.prefixes = tuple(prefix_dirs)
        self.n = len(bodies)
        self.sems = [threading.Semaphore(0) for _ in bodies]
        self.done_evt = threading.Semaphore(0)
        self.finished = [False] * self.n
        self.results = [None] * self.n
        self.points = 0
        self.switches = 0
        self.horizon = horizon
        self.granularity = granularity      # 'line': a switch is possible at every source line; 'call': at every function entry
        self.name_prefixes = tuple(name_prefixes) if name_prefixes else None    # only functions whose name starts like this are scheduling points
        self.error = None
        self.interleaved = False
        self._last = None
        self._seen = set()

    # ---- tracing -----------------------------------------------------------------------------------
    def _global_trace(self, tid):
        prefixes = self.prefixes

        def local(frame, event, arg):
            if event == 'line':
                self.point(tid)
            return local

        def glob(frame, event, arg):
            if event == 'call' and frame.f_code.co_filename.startswith(prefixes):
                if self.name_prefixes is not None and not frame.f_code.co_name.startswith(self.name_prefixes):
                    return None
                if self.granularity == 'call':
                    self.point(tid)
                    return None
                return local
            return None
        return glob

    def point(self, tid):
        if self.error is not None:
            return
        self.points += 1
        if self.points > self.horizon:
            self.error = HarnessError('thread schedule horizon exceeded')
            return
        self._seen.add(tid)
        if self._last is not None and self._last != tid and len(self._seen) > 1:
            self.interleaved = True
        self._last = tid
        others = [t for t in range(self.n) if t != tid and not self.finished[t]]
        if not others:
            return
        idx = self.env.choose(('pt', tid), 1 + len(others), cost=1)
        if idx:
            nxt = others[idx - 1]
            self.switches += 1
            self.sems[nxt].release()
            self.sems[tid].acquire()

    def _thread(self, tid):
        self.sems[tid].acquire()
        sys.settrace(self._global_trace(tid))
        try:
            try:
                self.results[tid] = ('ok', self.bodies[tid]())
            except BaseException as e:   # noqa
                self.results[tid] = ('exc', e)
        finally:
            sys.settrace(None)
            self.finished[tid] = True
            rest = [t for t in range(self.n) if not self.finished[t]]
            if rest:
                try:
                    idx = self.env.choose(('end', tid), len(rest), cost=0) if self.error is None else 0
                except HarnessError as e:
                    self.error = e
                    idx = 0
                self.sems[rest[idx]].release()
            else:
                self.done_evt.release()

    def run(self):
        threads = [threading.Thread(target=self._thread, args=(t,), daemon=True) for t in range(self.n)]
        for t in threads:
            t.start()
        first = self.env.choose(('start',), self.n, cost=0)
        self.sems[first].release()
        if not self.done_evt.acquire(timeout=60):
            raise HarnessError('thread schedule did not terminate (deadlock or lost baton)')
        for t in threads:
            t.join(timeout=10)
        if self.error is not None:
            raise self.error
        return self.results


def run_threads(bodies, env, prefix_dirs, granularity='line', name_prefixes=None):
    r = ThreadRun(bodies, env, prefix_dirs, granularity=granularity, name_prefixes=name_prefixes)
    res = r.run()
    return res, r
