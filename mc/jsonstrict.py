"""
S1 - strict RFC 8259 recogniser.  Parses a text into a value tree without ever converting number
literals (numbers become Num(literal)), so integer literals of any length are fine, and rejects
everything json.loads tolerates beyond the RFC: NaN / Infinity / -Infinity, BOM, raw control
characters in strings.  Returns (True, value) or (False, reason).
"""
import re

WS = ' \t\n\r'
NUM_RE = re.compile(r'-?(?:0|[1-9][0-9]*)(?:\.[0-9]+)?(?:[eE][+-]?[0-9]+)?')
ESC = {'"': '"', '\\': '\\', '/': '/', 'b': '\b', 'f': '\f', 'n': '\n', 'r': '\r', 't': '\t'}


class Num:
    __slots__ = ('lit',)

    def __init__(self, lit):
        self.lit = lit

    @property
    def is_int(self):
        return not any(c in self.lit for c in '.eE')

    def __repr__(self):
        return 'Num(%s)' % (self.lit if len(self.lit) < 40 else self.lit[:20] + '..%d digits' % len(self.lit))

    def __eq__(self, o):
        return isinstance(o, Num) and o.lit == self.lit

    def __hash__(self):
        return hash(self.lit)


class _Bad(Exception):
    pass


def parse(text, max_depth=100000):
    """iterative (no recursion limit) strict parser"""
    if not isinstance(text, str):
        return False, 'not a str'
    n = len(text)
    i = 0

    def skip(i):
        while i < n and text[i] in WS:
            i += 1
        return i

    def parse_string(i):
        # text[i] == '"'
        i += 1
        out = []
        while True:
            if i >= n:
                raise _Bad('unterminated string')
            c = text[i]
            if c == '"':
                return ''.join(out), i + 1
            if c == '\\':
                i += 1
                if i >= n:
                    raise _Bad('bad escape')
                e = text[i]
                if e in ESC:
                    out.append(ESC[e])
                    i += 1
                elif e == 'u':
                    h = text[i + 1:i + 5]
                    if len(h) != 4 or not re.fullmatch('[0-9a-fA-F]{4}', h):
                        raise _Bad('bad \\u escape')
                    cp = int(h, 16)
                    i += 5
                    if 0xD800 <= cp < 0xDC00 and text[i:i + 2] == '\\u':
                        h2 = text[i + 2:i + 6]
                        if len(h2) == 4 and re.fullmatch('[0-9a-fA-F]{4}', h2) and 0xDC00 <= int(h2, 16) < 0xE000:
                            cp = 0x10000 + ((cp - 0xD800) << 10) + (int(h2, 16) - 0xDC00)
                            i += 6
                    out.append(chr(cp))
                else:
                    raise _Bad('bad escape')
            elif ord(c) < 0x20:
                raise _Bad('control character in string')
            else:
                out.append(c)
                i += 1

    # explicit stack machine
    try:
        stack = []   # containers under construction: ['list', list] / ['dict', dict, pending_key]
        i = skip(i)
        value = None
        have_value = False
        while True:
            # parse a value at i
            if i >= n:
                raise _Bad('unexpected end')
            c = text[i]
            if c == '{':
                i = skip(i + 1)
                if i < n and text[i] == '}':
                    value, have_value, i = {}, True, i + 1
                else:
                    if i >= n or text[i] != '"':
                        raise _Bad('object key expected')
                    k, i = parse_string(i)
                    i = skip(i)
                    if i >= n or text[i] != ':':
                        raise _Bad('colon expected')
                    i = skip(i + 1)
                    stack.append(['dict', {}, k])
                    if len(stack) > max_depth:
                        raise _Bad('too deep')
                    continue
            elif c == '[':
                i = skip(i + 1)
                if i < n and text[i] == ']':
                    value, have_value, i = [], True, i + 1
                else:
                    stack.append(['list', []])
                    if len(stack) > max_depth:
                        raise _Bad('too deep')
                    continue
            elif c == '"':
                value, i = parse_string(i)
                have_value = True
            elif text.startswith('true', i):
                value, have_value, i = True, True, i + 4
            elif text.startswith('false', i):
                value, have_value, i = False, True, i + 5
            elif text.startswith('null', i):
                value, have_value, i = None, True, i + 4
            else:
                m = NUM_RE.match(text, i)
                if not m or m.end() == i:
                    raise _Bad('value expected at %d' % i)
                value, have_value, i = Num(m.group()), True, m.end()
            # a value is complete: attach upwards
            while True:
                i = skip(i)
                if not stack:
                    if i != n:
                        raise _Bad('trailing data')
                    return True, value
                top = stack[-1]
                if top[0] == 'list':
                    top[1].append(value)
                    if i < n and text[i] == ',':
                        i = skip(i + 1)
                        break  # parse next value
                    if i < n and text[i] == ']':
                        i += 1
                        value = top[1]
                        stack.pop()
                        continue
                    raise _Bad('comma or ] expected')
                else:
                    top[1][top[2]] = value
                    if i < n and text[i] == ',':
                        i = skip(i + 1)
                        if i >= n or text[i] != '"':
                            raise _Bad('object key expected')
                        k, i = parse_string(i)
                        i = skip(i)
                        if i >= n or text[i] != ':':
                            raise _Bad('colon expected')
                        i = skip(i + 1)
                        top[2] = k
                        break
                    if i < n and text[i] == '}':
                        i += 1
                        value = top[1]
                        stack.pop()
                        continue
                    raise _Bad('comma or } expected')
    except _Bad as e:
        return False, str(e)


def is_json(text):
    return parse(text)[0]


def to_python(v):
    """value tree -> python value; integers via int() (caller guarantees size), floats via float(); iterative (any depth)"""
    def leaf(x):
        if isinstance(x, Num):
            return int(x.lit) if x.is_int else float(x.lit)
        return x
    if not isinstance(v, (list, dict)):
        return leaf(v)
    root = [] if isinstance(v, list) else {}
    stack = [(v, root)]
    while stack:
        src, dst = stack.pop()
        items = enumerate(src) if isinstance(src, list) else src.items()
        for k, x in items:
            if isinstance(x, (list, dict)):
                y = [] if isinstance(x, list) else {}
                stack.append((x, y))
            else:
                y = leaf(x)
            if isinstance(dst, list):
                dst.append(y)
            else:
                dst[k] = y
    return root


def depth(v):
    """nesting depth of the value tree (scalars 0)"""
    best = 0
    stack = [(v, 0)]
    while stack:
        x, d = stack.pop()
        if isinstance(x, list):
            best = max(best, d + 1)
            stack.extend((y, d + 1) for y in x)
        elif isinstance(x, dict):
            best = max(best, d + 1)
            stack.extend((y, d + 1) for y in x.values())
    return best


def max_int_digits(v):
    """largest digit count of an integer literal in the tree (0 if none)"""
    best = 0
    stack = [v]
    while stack:
        x = stack.pop()
        if isinstance(x, Num):
            if x.is_int:
                best = max(best, len(x.lit.lstrip('-')))
        elif isinstance(x, list):
            stack.extend(x)
        elif isinstance(x, dict):
            stack.extend(x.values())
    return best


def has_nonfinite_float(v):
    stack = [v]
    while stack:
        x = stack.pop()
        if isinstance(x, Num):
            if not x.is_int:
                f = float(x.lit)
                if f != f or f in (float('inf'), float('-inf')):
                    return True
        elif isinstance(x, list):
            stack.extend(x)
        elif isinstance(x, dict):
            stack.extend(x.values())
    return False
