"""
Bookkeeping core of the explorer: contexts, recorders, sharding over forked workers,
violations / replays / known findings, evidence files.

Exit codes of a check:  0 = property held on everything explored (known findings allowed),
                        1 = at least one VIOLATION line printed,
                        2 = harness error (never a verdict about pjrpc).
"""
import collections
import hashlib
import itertools
import json
import os
import pickle
import re
import sys
import time
_real_time = time.time          # the harness measures its own wall time with the real clock (checks own a virtual one)
import traceback

VERIF = os.path.dirname(os.path.dirname(os.path.abspath(__file__)))
REPLAYS = os.environ.get('VERIF_REPLAY_DIR') or os.path.join(VERIF, 'replays')
EVIDENCE = os.environ.get('VERIF_EVIDENCE_DIR') or os.path.join(VERIF, 'evidence')
KNOWN = os.path.join(VERIF, 'known_findings.json')

MAX_VIOL_PER_SIG = 3      # replay files kept per violation signature
MAX_SIG_LINES = 25        # VIOLATION lines printed


class HarnessError(Exception):
    """Something is wrong with the machinery (not with pjrpc): exit 2."""


def jdefault(o):
    if isinstance(o, (set, frozenset)):
        return sorted(o, key=repr)
    if isinstance(o, tuple):
        return list(o)
    if isinstance(o, bytes):
        return {'__bytes__': o.hex()}
    return repr(o)


def jdump(o, **kw):
    return json.dumps(o, default=jdefault, ensure_ascii=True, **kw)


def digest(o):
    """stable 64-bit digest of a (repr-able) observation"""
    if not isinstance(o, (str, bytes)):
        o = repr(o)
    if isinstance(o, str):
        o = o.encode('utf-8', 'surrogatepass')
    return int.from_bytes(hashlib.blake2b(o, digest_size=8).digest(), 'big')


class Recorder:
    """Per-worker (and merged) accumulation of what a run covered."""

    def __init__(self):
        self.evaluations = 0          # cases / executions run
        self.states = 0               # distinct canonical states / cases (by construction or via state_set)
        self.state_set = set()        # digests, when distinctness must be measured
        self.transitions = 0          # implementation steps executed and compared with the oracle
        self.traces = 0               # complete model traces replayed on the implementation
        self.nontrivial = set()       # digests of distinct non-trivial cases
        self.nontrivial_n = 0         # or a plain count when distinct by construction
        self.outcomes = collections.Counter()   # distinct observed outcome classes
        self.counters = collections.Counter()   # free-form named counters (go to evidence)
        self.samples = []
        self.violations = []          # list of dict
        self.viol_count = collections.Counter()  # signature -> occurrences (all, not only kept)
        self.rechecked = 0
        self.nondet = []              # determinism self-check failures
        self.blobs = {}               # key -> payload handed to a second stage by the master

    # --- recording ---------------------------------------------------------------------------
    def violation(self, signature, case, expected=None, observed=None, detail=None):
        self.viol_count[signature] += 1
        if self.viol_count[signature] <= MAX_VIOL_PER_SIG:
            # what is kept is plain data: live objects (view instances, exceptions, ...) are rendered, so that a violation
            # record can always be shipped from a worker process and written to a replay file
            def plain(x):
                try:
                    t = jdump(x)
                    if len(t) > 20000 or t.count('[') + t.count('{') > 400:
                        return t[:1500] + ' ...(%d characters)' % len(t)      # huge / deeply nested: kept as truncated text
                    return json.loads(t)
                except Exception:   # noqa
                    try:
                        return repr(x)[:2000]
                    except Exception:   # noqa - e.g. nested too deeply to be rendered
                        return '<%s that cannot be rendered>' % type(x).__name__
            self.violations.append(dict(signature=signature, case=case, expected=plain(expected),
                                        observed=plain(observed), detail=plain(detail)))

    def sample(self, s, cap=6):
        if len(self.samples) < cap:
            self.samples.append(s)

    # --- merging -----------------------------------------------------------------------------
    def merge(self, o):
        self.evaluations += o.evaluations
        self.states += o.states
        self.state_set |= o.state_set
        self.transitions += o.transitions
        self.traces += o.traces
        self.nontrivial |= o.nontrivial
        self.nontrivial_n += o.nontrivial_n
        self.outcomes.update(o.outcomes)
        self.counters.update(o.counters)
        self.samples.extend(o.samples)
        self.rechecked += o.rechecked
        self.nondet.extend(o.nondet[:3])
        for k, v in o.blobs.items():
            self.blobs.setdefault(k, v)
        for v in o.violations:
            self.violations.append(v)
        self.viol_count.update(o.viol_count)


class Ctx:
    def __init__(self, prop, tier, seed, workers):
        self.prop = prop
        self.tier = tier
        self.seed = seed
        self.workers = workers
        self.quick = tier == 'quick'
        self.rec = Recorder()
        self.t0 = _real_time()
        self.bounds = {}          # name -> what was completed
        self.assumptions = []
        self.notes = []
        self.guards = []          # (name, ok, detail)
        self.rule = ''
        self.exhaustive = True    # set to False by a check whose exploration hit a cap (reported, never silent)

    def pick(self, quick, thorough):
        return quick if self.quick else thorough

    def guard(self, name, ok, detail=''):
        """vacuity guard: deterministic floor on a correct tree"""
        self.guards.append((name, bool(ok), detail))

    # ------------------------------------------------------------------------------------------
    # E1: sharded enumeration of cases
    # ------------------------------------------------------------------------------------------
    def run_cases(self, name, gen, run_case, recheck_every=211, workers=None):
        """
        gen(): deterministic iterator of JSON-able case descriptors (simplest first).
        run_case(case, rec) -> observation (repr-able) used for the determinism self check.
        Every worker enumerates gen() and executes the cases whose index is congruent to its id.
        """
        W = workers or self.workers
        t0 = _real_time()
        seed = self.seed

        def work(wid):
            rec = Recorder()
            n = 0
            for idx, case in enumerate(gen()):
                if (idx + seed) % W != wid:
                    continue
                try:
                    obs = run_case(case, rec)
                except HarnessError as e:
                    # an exploration that could not be carried through (a schedule that does not replay, an execution cap): not fatal
                    # at once - a genuine violation found in another case is still reported (exit 1); without one the run ends as
                    # a harness ERROR (exit 2), never as a verdict
                    rec.nondet.append('case %s: %s' % (jdump(case)[:300], e))
                    continue
                rec.evaluations += 1
                n += 1
                if (idx + seed) % recheck_every == 0:
                    # determinism self-check: identical observation on re-execution
                    r2 = Recorder()
                    try:
                        obs2 = run_case(case, r2)
                    except HarnessError as e:
                        rec.nondet.append('case %s (re-execution): %s' % (jdump(case)[:300], e))
                        continue
                    rec.rechecked += 1
                    if repr(obs) != repr(obs2):
                        # not fatal at once: a genuine violation found elsewhere is still reported (exit 1);
                        # without one the run ends as a harness ERROR (exit 2), never as a verdict
                        rec.nondet.append('case %s: %s vs %s' % (jdump(case)[:300], repr(obs)[:300], repr(obs2)[:300]))
                if idx % 7919 == (seed % 7919):
                    rec.sample(case)
            return rec

        recs = fork_map(work, W)
        for r in recs:
            self.rec.merge(r)
        self.bounds.setdefault('phases', []).append(
            dict(phase=name, wall_s=round(_real_time() - t0, 2), evaluations=sum(r.evaluations for r in recs)))
        return recs

    # ------------------------------------------------------------------------------------------
    def finish(self):
        return finish(self)


def fork_map(work, W):
    """run work(wid) for wid in range(W) in forked children, return the list of results"""
    if W <= 1:
        return [work(0)]
    children = []
    for wid in range(W):
        r, w = os.pipe()
        pid = os.fork()
        if pid == 0:
            os.close(r)
            code = 0
            try:
                try:
                    res = ('ok', work(wid))
                except HarnessError as e:
                    res = ('harness', str(e))
                except BaseException:
                    res = ('crash', traceback.format_exc())
                with os.fdopen(w, 'wb') as f:
                    pickle.dump(res, f, protocol=pickle.HIGHEST_PROTOCOL)
            except BaseException:
                traceback.print_exc()
                code = 3
            finally:
                os._exit(code)
        os.close(w)
        children.append((pid, r))
    out = []
    errors = []
    for pid, r in children:
        with os.fdopen(r, 'rb') as f:
            data = f.read()
        os.waitpid(pid, 0)
        try:
            kind, val = pickle.loads(data)
        except Exception:
            errors.append('worker %d died without a result' % pid)
            continue
        if kind == 'ok':
            out.append(val)
        else:
            errors.append('%s: %s' % (kind, val))
    if errors:
        raise HarnessError('worker failure:\n' + '\n'.join(errors[:3]))
    return out


# ----------------------------------------------------------------------------------------------
# E3: stateless exploration of environment choice points (deviation bounded or complete)
# ----------------------------------------------------------------------------------------------
class Env:
    """choice oracle for one execution: replays a prefix, then takes option 0"""

    def __init__(self, prefix):
        self.prefix = prefix
        self.trace = []        # (label, n_options, chosen)
        self.costs = []

    def choose(self, label, n, cost=1):
        """cost: what a non-default answer at this point costs against the deviation budget (0 = free)"""
        if n <= 0:
            raise HarnessError('choice point %r without options' % (label,))
        i = len(self.trace)
        c = self.prefix[i] if i < len(self.prefix) else 0
        if c >= n:
            raise HarnessError('replay divergence at choice %d (%r): option %d of %d' % (i, label, c, n))
        self.trace.append((label, n, c))
        self.costs.append(cost)
        return c


def explore_choices(run, budget=None, max_exec=None, on_exec=None, shard=None):
    """
    run(env) executes the system once to completion calling env.choose(label, n) at every
    environment choice point, and returns an observation.  Enumerates every choice sequence whose
    number of non-default choices is <= budget (None = all).  Yields (choices, observation).
    Replaying a prefix must reproduce the same labels/arity: checked.
    """
    stack = [((), ())]
    count = 0
    dealt = 0
    if shard is not None:
        sk, sK = shard[0], shard[1]
        sD = shard[2] if len(shard) > 2 else 1
    while stack:
        prefix, expect = stack.pop()
        env = Env(prefix)
        obs = run(env)
        count += 1
        if len(env.trace) < len(prefix):
            raise HarnessError('replay divergence: execution ended after %d choices, prefix has %d'
                               % (len(env.trace), len(prefix)))
        shape = tuple((l, n) for l, n, _ in env.trace)
        if shape[:len(expect)] != expect:
            raise HarnessError('replay divergence: choice points %r became %r' % (expect, shape[:len(expect)]))
        choices = tuple(c for _, _, c in env.trace)
        devs = sum(1 for c in prefix if c)
        # one tree split over K workers: nodes with fewer than D deviations are executed by every shard (and reported
        # by shard 0 only); the subtrees rooted at the nodes with exactly D deviations are dealt round-robin
        if shard is None or devs >= sD or sk == 0:
            yield choices, obs
        if max_exec is not None and count >= max_exec:
            raise HarnessError('execution cap %d hit in explore_choices' % max_exec)
        used = sum(env.costs[i] for i, c in enumerate(choices[:len(prefix)]) if c)
        ext = []
        for i in range(len(prefix), len(env.trace)):
            if budget is not None and used + env.costs[i] > budget:
                continue
            n = env.trace[i][1]
            for alt in range(1, n):
                ext.append((choices[:i] + (alt,), shape[:i + 1]))
        if shard is not None and devs + 1 == sD:
            mine = []
            for e in ext:
                if dealt % sK == sk:
                    mine.append(e)
                dealt += 1
            ext = mine
        # DFS order: earliest deviation first
        stack.extend(reversed(ext))


# ----------------------------------------------------------------------------------------------
# known findings, violations, evidence
# ----------------------------------------------------------------------------------------------
def load_known(prop):
    if not os.path.exists(KNOWN):
        return []
    with open(KNOWN) as f:
        data = json.load(f)
    return [e for e in data.get('findings', []) if e.get('property') == prop]


def finish(ctx):
    rec = ctx.rec
    prop = ctx.prop
    wall = _real_time() - ctx.t0

    failed_guards = [g for g in ctx.guards if not g[1]]

    known = load_known(prop)
    open_known = [e for e in known if e.get('status') == 'open']
    by_sig = collections.OrderedDict()
    for v in rec.violations:
        by_sig.setdefault(v['signature'], []).append(v)

    real = collections.OrderedDict()
    hits = collections.OrderedDict()
    for sig, vs in by_sig.items():
        ent = None
        for e in open_known:
            if re.fullmatch(e['signature'], sig):
                ent = e
                break
        if ent is not None:
            hits.setdefault(ent['id'], [ent, 0, vs[0]])
            hits[ent['id']][1] += rec.viol_count[sig]
        else:
            real[sig] = vs

    os.makedirs(REPLAYS, exist_ok=True)
    lines = []
    for sig, vs in real.items():
        vs = sorted(vs, key=lambda v: len(jdump(v['case'])))[:MAX_VIOL_PER_SIG]
        v = vs[0]
        doc = dict(property=prop, tier=ctx.tier, **v, occurrences=rec.viol_count[sig])
        h = hashlib.sha1((sig + jdump(v['case'])).encode()).hexdigest()[:12]
        path = os.path.join(REPLAYS, '%s-%s.json' % (prop, h))
        with open(path, 'w') as f:
            f.write(jdump(doc, indent=1))
        if len(lines) < MAX_SIG_LINES:
            lines.append((sig, path, v))

    for eid, (ent, n, v) in hits.items():
        print('KNOWN-FINDING: property=%s %s [%s; %d occurrence(s) this run; e.g. case=%s]'
              % (prop, ent['what'], eid, n, jdump(v['case'])[:200]))
    for sig, path, v in lines:
        print('VIOLATION property=%s replay=%s' % (prop, path))
        print('   signature: %s' % sig)
        print('   case:      %s' % jdump(v['case'])[:400])
        print('   expected:  %s' % jdump(v['expected'])[:400])
        print('   observed:  %s' % jdump(v['observed'])[:400])
        if v.get('detail'):
            print('   detail:    %s' % str(v['detail'])[:400])

    states = rec.states + len(rec.state_set)
    nontrivial = rec.nontrivial_n + len(rec.nontrivial)
    cov = dict(
        states=states,
        transitions=rec.transitions,
        traces_validated_against_impl=rec.traces,
        evaluations=rec.evaluations,
        distinct_nontrivial=nontrivial,
        rule=ctx.rule,
        samples=rec.samples[:8] or ['(no sample)'],
        exhaustive=bool(ctx.exhaustive),
        bounds=ctx.bounds,
        distinct_outcomes=len(rec.outcomes),
        outcomes=dict(sorted(((str(k), v) for k, v in rec.outcomes.items()), key=lambda kv: -kv[1])[:40]),
        counters=dict(rec.counters),
        determinism_rechecks=rec.rechecked,
        determinism_failures=len(rec.nondet),
        vacuity_guards=[dict(name=g[0], ok=g[1], detail=str(g[2])) for g in ctx.guards],
        known_findings_hit=[dict(id=eid, occurrences=n) for eid, (ent, n, v) in hits.items()],
        violation_signatures=list(real.keys())[:50],
        notes=ctx.notes,
        workers=ctx.workers,
    )
    ev = dict(property_id=prop, tier=ctx.tier, seed=ctx.seed, level='model_checking',
              coverage=cov, assumptions=ctx.assumptions, wall_s=round(wall, 2),
              violations=len(real))
    os.makedirs(EVIDENCE, exist_ok=True)
    tmp = os.path.join(EVIDENCE, '.%s.json.tmp' % prop)
    with open(tmp, 'w') as f:
        f.write(jdump(ev, indent=1))
    os.replace(tmp, os.path.join(EVIDENCE, '%s.json' % prop))

    print('%s tier=%s seed=%d states=%d transitions=%d traces=%d evaluations=%d nontrivial=%d '
          'outcomes=%d known=%d violations=%d wall=%.1fs'
          % (prop, ctx.tier, ctx.seed, states, rec.transitions, rec.traces, rec.evaluations, nontrivial,
             len(rec.outcomes), len(hits), len(real), wall))
    if rec.nondet and not real:
        for n in rec.nondet[:3]:
            print('ERROR nondeterministic observation on re-execution: %s' % n)
        return 2
    if failed_guards and not real:
        for g in failed_guards:
            print('ERROR vacuity guard failed: %s %s' % (g[0], g[2]))
        return 2
    return 1 if real else 0
