"""In-process drivers for the HTTP integrations: no sockets, one request at a time."""
import asyncio
from unittest import mock

import flask
import werkzeug.test
from aiohttp import streams, web
from aiohttp.test_utils import make_mocked_request

import pjrpc
from pjrpc.server.integration import aiohttp as ia
from pjrpc.server.integration import flask as ifl
from pjrpc.server.integration import werkzeug as iw

from ..vloop import VLoop


class Reply:
    def __init__(self, status, content_type, body, raised=None, raw_content_type=None):
        self.status = status
        self.raw_content_type = raw_content_type      # the Content-Type header as sent, or None
        self.content_type = content_type      # media type without parameters, lower case, or None
        self.body = body                      # bytes
        self.raised = raised

    def __repr__(self):
        return 'Reply(%s, %s, %r%s)' % (self.status, self.content_type, self.body[:120], ', raised=%s' % self.raised if self.raised else '')


def media(ct):
    if not ct:
        return None
    return ct.split(';')[0].strip().lower()


class SetupFailed(Exception):
    """initialising the integration (init_app / freeze / mounting) raised"""


class Integration:
    """one integration with its dispatcher; register(methods) -> post(path, body, content_type)"""

    def __init__(self, kind, path, status_by_error=None, endpoint='', endpoint_mode='plain', target='endpoint', spec=None, specs=None, mount=None,
                 main_kwargs=None, body_reader_hook=False, chunked=False):
        """endpoint: '' = the integration's main endpoint, '/x' = an additional endpoint added with add_endpoint (aiohttp, flask)"""
        self.kind = kind
        self.path = path
        self.endpoint = endpoint
        kw = {}
        if status_by_error is not None and not kind.startswith('werkzeug'):
            kw['status_by_error'] = status_by_error
        if spec is not None:
            kw['spec'] = spec
        if specs is not None:
            kw['specs'] = specs
        self.mount = mount
        self.body_reader_hook = body_reader_hook      # flask: a before_request hook that reads the body first (audit log, signature check)
        self.chunked = chunked                        # wsgi: the body arrives with Transfer-Encoding: chunked (no Content-Length)
        main_kw = dict(kw, **(main_kwargs or {}))     # dispatcher options of the MAIN endpoint only (middlewares, error handlers)
        if kind == 'aiohttp':
            self.rpc = ia.Application(path, **main_kw)
            self.dispatcher = self.rpc.dispatcher
        elif kind == 'flask':
            self.app = flask.Flask('c18')
            self.rpc = ifl.JsonRPC(path, **main_kw)
            self.dispatcher = self.rpc.dispatcher
        else:
            self.rpc = iw.JsonRPC(path, **(main_kwargs or {}))
            self.dispatcher = self.rpc.dispatcher
        if endpoint:
            if kind.startswith('werkzeug'):
                raise ValueError('the werkzeug integration has no additional endpoints')
            if endpoint_mode == 'plain':
                self.dispatcher = self.rpc.add_endpoint(endpoint)
            elif endpoint_mode == 'container' and kind == 'aiohttp':
                # the endpoint lives on its own aiohttp sub-application
                self.dispatcher = self.rpc.add_endpoint(endpoint, subapp=web.Application())
            elif endpoint_mode == 'container' and kind == 'flask':
                self.dispatcher = self.rpc.add_endpoint(endpoint, blueprint=flask.Blueprint('bp_c18', 'c18'))
            elif endpoint_mode == 'child' and kind == 'aiohttp':
                # a child pjrpc Application mounted with add_subapp
                child = ia.Application('/rpc2', **kw)
                self.rpc.add_subapp(endpoint, child)
                self.dispatcher = child.dispatcher
                self.endpoint = endpoint + '/rpc2'
            else:
                raise ValueError('unsupported endpoint mode %s for %s' % (endpoint_mode, kind))
        self.main_dispatcher = self.rpc.dispatcher
        if target == 'main':
            # additional endpoints exist (before and after), but the request goes to the main endpoint
            if not kind.startswith('werkzeug'):
                self.rpc.add_endpoint('/zz-after')
            self.dispatcher = self.main_dispatcher
            self.endpoint = ''
        self._ready = False

    def ready(self):
        if self._ready:
            return
        try:
            self._make_ready()
        except SetupFailed:
            raise
        except Exception as e:   # noqa  - the integration's own initialisation refused a documented arrangement
            raise SetupFailed('%s: %r' % (self.kind, e)) from e

    def _make_ready(self):
        self._ready = True
        if self.kind == 'flask':
            if self.mount:
                # the extension lives on a blueprint that the application mounts under a url prefix
                bp = flask.Blueprint('mounted_rpc', 'mounted_rpc')
                self.rpc.init_app(bp)
                self.app.register_blueprint(bp, url_prefix=self.mount)
            else:
                self.rpc.init_app(self.app)
            if self.body_reader_hook:
                @self.app.before_request
                def audit():
                    flask.request.get_data()          # e.g. request logging / signature verification
            self.client = self.app.test_client()
        elif self.kind == 'werkzeug':
            self.client = werkzeug.test.Client(self.rpc)
        elif self.kind == 'werkzeug-wsgi_app':
            # the documented way to wrap the application in wsgi middlewares: app.wsgi_app = Middleware(app.wsgi_app)
            self.client = werkzeug.test.Client(self.rpc.wsgi_app)
        elif self.mount:
            # the JSON-RPC application is mounted under a url prefix of an outer aiohttp application
            self.outer = web.Application()
            self.outer.add_subapp(self.mount, self.rpc.app)
            self.outer.freeze()
        else:
            self.rpc.app.freeze()

    def post(self, body, content_type, path=None, extra_headers=None):
        self.ready()
        path = path if path is not None else ((self.mount or '') + (self.path or '') + self.endpoint or '/')
        headers = {} if content_type is None else {'Content-Type': content_type}
        headers.update(extra_headers or {})
        if self.kind in ('flask', 'werkzeug', 'werkzeug-wsgi_app'):
            try:
                if self.chunked:
                    # what a WSGI server hands over for a chunked request: no CONTENT_LENGTH, an input stream that ends by itself
                    env = werkzeug.test.EnvironBuilder(method='POST', path=path, data=body, headers=headers).get_environ()
                    env.pop('CONTENT_LENGTH', None)
                    env['HTTP_TRANSFER_ENCODING'] = 'chunked'
                    env['wsgi.input_terminated'] = True
                    wsgi = self.app if self.kind == 'flask' else (self.rpc.wsgi_app if self.kind == 'werkzeug-wsgi_app' else self.rpc)
                    it, status, hdrs = werkzeug.test.run_wsgi_app(wsgi, env)
                    data = b''.join(it)
                    return Reply(int(status.split()[0]), media(hdrs.get('Content-Type')), data, raw_content_type=hdrs.get('Content-Type'))
                else:
                    r = self.client.post(path, data=body, headers=headers)
            except Exception as e:   # noqa - an exception escaping the WSGI app is not an HTTP reply
                return Reply(None, None, b'', raised='%s: %s' % (type(e).__name__, e))
            return Reply(r.status_code, media(r.headers.get('Content-Type')), r.get_data(), raw_content_type=r.headers.get('Content-Type'))
        return self._post_aiohttp(path, body, headers)

    def get(self, path):
        """GET a document served by the integration (specification endpoints)"""
        self.ready()
        if self.kind in ('flask', 'werkzeug', 'werkzeug-wsgi_app'):
            try:
                r = self.client.get(path)
            except Exception as e:   # noqa
                return Reply(None, None, b'', raised='%s: %s' % (type(e).__name__, e))
            return Reply(r.status_code, media(r.headers.get('Content-Type')), r.get_data(), raw_content_type=r.headers.get('Content-Type'))
        return self._post_aiohttp(path, b'', {}, method='GET')

    def post_then_cancel(self, body, content_type, path=None, steps=3):
        """aiohttp only: the request handler is cancelled (client went away / a timeout middleware fired) after `steps` turns of the loop,
        i.e. while the dispatch is suspended in a method -> 'cancelled' | 'finished' | 'raised: ...'"""
        self.ready()
        path = path if path is not None else ((self.mount or '') + (self.path or '') + self.endpoint or '/')
        app = self.outer if self.mount else self.rpc.app
        headers = {'Content-Type': content_type, 'Content-Length': str(len(body))}

        async def go():
            loop = asyncio.get_running_loop()
            protocol = mock.Mock(_reading_paused=False)
            payload = streams.StreamReader(protocol, 2 ** 16, loop=loop)
            payload.feed_data(body)
            payload.feed_eof()
            req = make_mocked_request('POST', path, headers=headers, payload=payload, app=app)
            task = loop.create_task(app._handle(req))
            del req
            for _ in range(steps):
                await asyncio.sleep(0)
            if task.done():
                task.result()
                return 'finished'
            task.cancel()
            try:
                await task
            except asyncio.CancelledError:
                return 'cancelled'
            return 'finished'
        loop = VLoop()
        try:
            try:
                return loop.run(go())
            except Exception as e:   # noqa
                return 'raised: %s: %s' % (type(e).__name__, e)
        finally:
            loop.close()

    def _post_aiohttp(self, path, body, headers, method='POST'):
        """the request is handled by the real aiohttp application and the response is WRITTEN through aiohttp's own
        prepare() / write_eof() into a recording payload writer: the reply is what reached the writer (a response object
        that was already sent once writes nothing again - exactly what happens on a real connection)"""
        app = self.outer if (self.kind == 'aiohttp' and self.mount) else self.rpc.app

        async def go():
            loop = asyncio.get_running_loop()
            protocol = mock.Mock(_reading_paused=False)
            payload = streams.StreamReader(protocol, 2 ** 16, loop=loop)
            payload.feed_data(body)
            payload.feed_eof()
            writer = mock.Mock()
            for name in ('write_headers', 'write', 'write_eof', 'drain'):
                setattr(writer, name, mock.AsyncMock())
            req = make_mocked_request(method, path, headers=headers, payload=payload, app=app, writer=writer)
            try:
                resp = await app._handle(req)
            except web.HTTPException as e:      # by aiohttp's contract a raised HTTPException is the response
                resp = e
            await resp.prepare(req)
            await resp.write_eof()
            return resp, writer
        loop = VLoop()
        try:
            try:
                resp, writer = loop.run(go())
            except Exception as e:   # noqa
                return Reply(None, None, b'', raised='%s: %s' % (type(e).__name__, e))
        finally:
            loop.close()
        if not writer.write_headers.call_args:
            return Reply(None, None, b'', raised='no HTTP reply was written (the response object had already been sent for an earlier request)')
        status_line, hdrs = writer.write_headers.call_args[0][:2]
        chunks = [c[0][0] for c in writer.write.call_args_list if c[0]]
        if writer.write_eof.call_args and writer.write_eof.call_args[0]:
            chunks.append(writer.write_eof.call_args[0][0])
        data = b''.join(bytes(c) for c in chunks if c)
        try:
            status = int(status_line.split()[1])
        except Exception:   # noqa
            status = resp.status
        return Reply(status, media(hdrs.get('Content-Type')), data, raw_content_type=hdrs.get('Content-Type'))
