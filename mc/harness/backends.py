"""
The real client backends of pjrpc (requests, httpx sync / async, aiohttp) over in-process transports: no sockets.

handler(req) -> (status, [(header, value), ...], body bytes)         (may be a coroutine function for the async backends)
req = dict(method=, url=, headers={lower-case name: value}, body=bytes)

 * requests : a real requests.Session with a transport adapter mounted for http:// that builds a real requests.Response
 * httpx    : real httpx.Client / httpx.AsyncClient over httpx.MockTransport (httpx' own in-process transport)
 * aiohttp  : the installed aioresponses cannot build a ClientResponse of the installed aiohttp, so the session handed to the
              backend (its documented `session=` parameter) is a minimal stand-in implementing what the backend uses of
              aiohttp.ClientSession: post() as an async context manager, raise_for_status(), text(), headers (CIMultiDict).
"""
import inspect

import httpx
import requests
from multidict import CIMultiDict
from requests.adapters import BaseAdapter

import aiohttp

BACKENDS = ('requests', 'httpx', 'httpx-async', 'aiohttp')
ASYNC = {'requests': False, 'httpx': False, 'httpx-async': True, 'aiohttp': True}
URL = 'http://rpc.test/api'


def _req(method, url, headers, body):
    if isinstance(body, str):
        body = body.encode('utf-8')
    return dict(method=method, url=str(url), headers={str(k).lower(): str(v) for k, v in dict(headers or {}).items()}, body=bytes(body or b''))


class _Adapter(BaseAdapter):
    def __init__(self, handler):
        super().__init__()
        self.handler = handler

    def send(self, request, **kw):
        status, headers, body = self.handler(_req(request.method, request.url, request.headers, request.body))
        r = requests.Response()
        r.status_code = status
        r.headers = requests.structures.CaseInsensitiveDict(headers)
        r._content = body
        r._content_consumed = True
        r.url = request.url
        r.request = request
        r.reason = 'status %d' % status
        r.encoding = requests.utils.get_encoding_from_headers(r.headers)
        return r

    def close(self):
        pass


class _FakeAiohttpResponse:
    def __init__(self, status, headers, body, url):
        self.status = status
        self.headers = CIMultiDict(headers)
        self._body = body
        self.url = url

    @property
    def content_type(self):
        # aiohttp's parsed media type: lower case, without parameters
        return (self.headers.get('Content-Type', 'application/octet-stream').split(';')[0].strip().lower()) or 'application/octet-stream'

    def raise_for_status(self):
        if self.status >= 400:
            raise aiohttp.ClientResponseError(None, (), status=self.status, message='status %d' % self.status, headers=self.headers)

    async def text(self, encoding=None, errors='strict'):
        if encoding is None:
            ct = self.headers.get('Content-Type', '')
            encoding = 'utf-8'
            for p in ct.split(';')[1:]:
                k, _, v = p.strip().partition('=')
                if k.lower() == 'charset' and v:
                    encoding = v.strip('"')
        return self._body.decode(encoding, errors=errors)


class _Ctx:
    def __init__(self, coro):
        self._coro = coro

    async def __aenter__(self):
        self._resp = await self._coro
        return self._resp

    async def __aexit__(self, *a):
        return False

    def __await__(self):
        return self._coro.__await__()


class FakeAiohttpSession:
    def __init__(self, handler):
        self.handler = handler
        self.closed = False

    def post(self, url, data=None, headers=None, **kw):
        async def go():
            r = self.handler(_req('POST', url, headers, data))
            if inspect.isawaitable(r):
                r = await r
            status, hs, body = r
            return _FakeAiohttpResponse(status, hs, body, url)
        return _Ctx(go())

    async def close(self):
        self.closed = True

    async def __aenter__(self):
        return self

    async def __aexit__(self, *a):
        await self.close()


def make_backend_client(name, handler, **kw):
    """a real pjrpc backend client talking to handler; handler may be async for the async backends"""
    if name == 'requests':
        from pjrpc.client.backend import requests as b
        s = requests.Session()
        s.mount('http://', _Adapter(handler))
        return b.Client(URL, session=s, **kw)
    if name == 'httpx':
        from pjrpc.client.backend import httpx as b

        def h(request):
            status, headers, body = handler(_req(request.method, request.url, request.headers, request.content))
            return httpx.Response(status, headers=headers, content=body)
        return b.Client(URL, client=httpx.Client(transport=httpx.MockTransport(h)), **kw)
    if name == 'httpx-async':
        from pjrpc.client.backend import httpx as b

        async def h(request):
            r = handler(_req(request.method, request.url, request.headers, request.content))
            if inspect.isawaitable(r):
                r = await r
            status, headers, body = r
            return httpx.Response(status, headers=headers, content=body)
        return b.AsyncClient(URL, client=httpx.AsyncClient(transport=httpx.MockTransport(h)), **kw)
    if name == 'aiohttp':
        from pjrpc.client.backend import aiohttp as b
        return b.Client(URL, session=FakeAiohttpSession(handler), **kw)
    raise ValueError(name)
