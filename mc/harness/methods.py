"""
Instrumented JSON-RPC methods generated from behaviour descriptors (the same descriptors the
reference server S3 reads).  Every method appends (name, bound-arguments) to a call log.
"""
import pjrpc
from pjrpc.common import exceptions as exc

from ..refmodel.server import ABSENT, REQ

MARK = 'S3CR3T'


class MarkerBoom(Exception):
    pass


class MarkerLookup(LookupError):
    pass


class BadRepr(Exception):
    """an exception whose repr() / str() themselves fail"""
    def __repr__(self):
        raise RuntimeError('repr failed')

    def __str__(self):
        raise RuntimeError('str failed')


EXC_TYPES = dict(ValueError=ValueError, KeyError=KeyError, TypeError=TypeError, AssertionError=AssertionError,
                 RuntimeError=RuntimeError, MarkerLookup=MarkerLookup, MarkerBoom=MarkerBoom,
                 ZeroDivisionError=ZeroDivisionError, Exception=Exception, AttributeError=AttributeError,
                 StopIteration=StopIteration, OSError=OSError, NotImplementedError=NotImplementedError,
                 # the library's own exception types that are NOT protocol errors, raised by a method body
                 DeserializationError=exc.DeserializationError, IdentityError=exc.IdentityError, BaseError=exc.BaseError,
                 LookupError=LookupError, UnicodeDecodeError=UnicodeError, RecursionError=RecursionError, BadRepr=BadRepr)


def _late_exc_types():
    from pjrpc.server.validators import ValidationError
    EXC_TYPES['ValidationError'] = ValidationError


# registered error subclasses with private codes (defined once per process)
_REGISTERED = {}


def registered_error(code):
    """a JsonRpcError subclass registered for `code` (private harness codes only)"""
    if code not in _REGISTERED:
        _REGISTERED[code] = type('HarnessError%s' % str(code).replace('-', 'm'), (exc.JsonRpcError,),
                                 dict(code=code, message='harness error %s' % code))
    return _REGISTERED[code]


def make_error(beh):
    """build the JsonRpcError instance a 'perr' behaviour raises (may raise if not constructible)"""
    data = beh.get('data', ABSENT)
    kw = {}
    if not (isinstance(data, str) and data == ABSENT):
        kw['data'] = data
    if beh.get('cls') == 'registered':
        return registered_error(beh['code'])(beh['code'], beh['message'], **kw)
    return exc.JsonRpcError(beh['code'], beh['message'], **kw)


_DELAY = [1.0e9]


def _pause():
    from .. import sleeplog
    _DELAY[0] -= 1.0
    if _DELAY[0] < 1.0:
        _DELAY[0] = 1.0e9
    return sleeplog._real_asleep(_DELAY[0])


def build_function(name, beh, log, is_async=False, pause=True):
    spec = beh['params']
    parts = []
    ns = {'REQ': REQ}
    for i, (p, d) in enumerate(spec):
        if isinstance(d, str) and d == REQ:
            parts.append(p)
        else:
            ns['_d%d' % i] = d
            parts.append('%s=_d%d' % (p, i))
    if is_async and not pause:
        src = 'async def %s(%s):\n    return _body(dict(%s))\n' % (
            name.replace('.', '_'), ', '.join(parts), ', '.join('%s=%s' % (p, p) for p, _ in spec))
    elif is_async:
        # a coroutine method logs and computes at once, then suspends on a (virtual) timer that is SHORTER for every
        # later started call: within a batch the elements complete in reverse order, so that anything relying on
        # completion order instead of request order shows up even in the checks that do not enumerate schedules
        src = 'async def %s(%s):\n    r = _body(dict(%s))\n    await _pause()\n    return r\n' % (
            name.replace('.', '_'), ', '.join(parts), ', '.join('%s=%s' % (p, p) for p, _ in spec))
    else:
        src = 'def %s(%s):\n    return _body(dict(%s))\n' % (
            name.replace('.', '_'), ', '.join(parts), ', '.join('%s=%s' % (p, p) for p, _ in spec))

    def _body(bound):
        log.append((name, bound))
        kind = beh['kind']
        if kind == 'ret':
            r = beh.get('result')
            return r(bound) if callable(r) else bound
        if kind == 'perr':
            raise make_error(beh)
        if kind == 'boom':
            if beh['exc'] not in EXC_TYPES and beh['exc'] not in ('CallMismatch', 'KwMismatch', 'HugeInt'):
                _late_exc_types()
            if beh['exc'] == 'CallMismatch':
                # the body itself makes a call that python refuses ("helper() takes 1 positional argument but 3 were given")
                def helper_S3CR3T(only_one):
                    return only_one
                helper_S3CR3T(1, 2, 3)
            if beh['exc'] == 'KwMismatch':
                def helper_S3CR3T(only_one):
                    return only_one
                helper_S3CR3T(only_one=1, unexpected_S3CR3T=2)
            if beh['exc'] == 'HugeInt':
                raise OverflowError(10 ** 5000)          # rendering this exception exceeds the int -> str digit limit
            raise EXC_TYPES[beh['exc']]('%s %s' % (MARK, beh['exc']))
        raise AssertionError(kind)

    ns['_body'] = _body
    ns['_pause'] = _pause
    exec(src, ns)
    f = ns[name.replace('.', '_')]
    f.__name__ = name.replace('.', '_')
    if is_async == 'wrapped':
        # a plain function (not a coroutine function) that RETURNS a coroutine: e.g. an async method behind an ordinary decorator
        import functools
        co = f

        @functools.wraps(co)
        def f(*args, **kwargs):
            return co(*args, **kwargs)
    return f


def register(dispatcher, table, log, is_async=False, pause=True):
    for name, beh in table.items():
        if beh['kind'] == 'viewstate':
            register_stateful_view(dispatcher, name, log, is_async)
            continue
        dispatcher.add(build_function(name, beh, log, is_async=is_async, pause=pause), name=name)


def register_stateful_view(dispatcher, name, log, is_async):
    """a class based view registered WITHOUT a context that prepares per-request state in its constructor: method `name`(x) appends x
    to that state and returns it - [x] for every request, since every request is served by a view object of its own"""
    import pjrpc.server

    class Basket(pjrpc.server.ViewMixin):
        def __init__(self):
            super().__init__()
            self.items = []

    if is_async:
        async def push(self, x):
            self.items.append(x)
            log.append((name, dict(x=x)))
            await _pause()
            return list(self.items)
    else:
        def push(self, x):
            self.items.append(x)
            log.append((name, dict(x=x)))
            return list(self.items)
    push.__name__ = name
    setattr(Basket, name, push)
    dispatcher.registry.view(Basket)


# the standard behaviour table of C01-C03 / C11 / C13
def null_result(bound):
    return None


STD_TABLE = {
    'ok': dict(kind='ret', params=[('a', 0), ('b', 0)]),
    'add': dict(kind='ret', params=[('a', REQ), ('b', REQ)]),
    'nop': dict(kind='ret', params=[], result=null_result),
    'perr': dict(kind='perr', params=[('a', 0)], code=1234, message='custom error', data={'k': [1, None]},
                 cls='base'),
    'perr0': dict(kind='perr', params=[], code=-32099, message='no data', cls='base'),
    'boom': dict(kind='boom', params=[('a', 0)], exc='ValueError'),
    'boomt': dict(kind='boom', params=[('a', 0)], exc='TypeError'),
}
