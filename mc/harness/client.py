"""Real pjrpc clients whose transport is scripted by the harness."""
import pjrpc
from pjrpc.client import AbstractAsyncClient, AbstractClient

from ..vloop import VLoop


class ScriptClient(AbstractClient):
    """responder(request_text, is_notification, kwargs) -> response text | None, or raises"""

    def __init__(self, responder, **kw):
        super().__init__(**kw)
        self.responder = responder
        self.sent = []

    def _request(self, request_text, is_notification=False, **kwargs):
        self.sent.append((request_text, is_notification, kwargs))
        return self.responder(request_text, is_notification, kwargs)


class AsyncScriptClient(AbstractAsyncClient):
    """same, asynchronous; responder may be a plain function or return an awaitable"""

    def __init__(self, responder, **kw):
        super().__init__(**kw)
        self.responder = responder
        self.sent = []

    async def _request(self, request_text, is_notification=False, **kwargs):
        self.sent.append((request_text, is_notification, kwargs))
        r = self.responder(request_text, is_notification, kwargs)
        if hasattr(r, '__await__'):
            r = await r
        return r


def custom_client_classes():
    """trivial subclasses / wrappers for every pluggable piece of a client; each one counts its uses"""
    import json as _json

    from pjrpc.common import JSONEncoder, v20
    uses = {}

    def count(k):
        uses[k] = uses.get(k, 0) + 1

    class Rq(v20.Request):
        def to_json(self):
            count('request_class')
            return super().to_json()

    class Rs(v20.Response):
        @classmethod
        def from_json(cls, data, error_cls=None, **kw):
            count('response_class')
            return super().from_json(data, **({'error_cls': error_cls} if error_cls is not None else {}), **kw)

    class BRq(v20.BatchRequest):
        def to_json(self):
            count('batch_request_class')
            return super().to_json()

    class BRs(v20.BatchResponse):
        @classmethod
        def from_json(cls, data, error_cls=None, **kw):
            count('batch_response_class')
            return super().from_json(data, **({'error_cls': error_cls} if error_cls is not None else {}), **kw)

    class Enc(JSONEncoder):
        def encode(self, o):
            count('json_encoder')
            return super().encode(o)

    class Dec(_json.JSONDecoder):
        def decode(self, s, *a, **kw):
            count('json_decoder')
            return super().decode(s, *a, **kw)

    def loads(text, **kw):
        count('json_loader')
        return _json.loads(text, **kw)

    def dumps(obj, **kw):
        count('json_dumper')
        return _json.dumps(obj, **kw)
    return dict(request_class=Rq, response_class=Rs, batch_request_class=BRq, batch_response_class=BRs, json_encoder=Enc,
                json_decoder=Dec, json_loader=loads, json_dumper=dumps), uses


def make_client(kind, responder, custom=False, **kw):
    cls = AsyncScriptClient if kind == 'async' else ScriptClient
    if custom:
        cc, uses = custom_client_classes()
        c = cls(responder, **dict(cc, **kw))
        c.uses = uses
        return c
    return cls(responder, **kw)


def run(kind, thunk, loop=None):
    """thunk() -> value or awaitable; returns ('ok', value) | ('exc', exception)"""
    try:
        r = thunk()
        if kind == 'async':
            own = loop is None
            loop = loop or VLoop()
            try:
                r = loop.run(r)
            finally:
                if own:
                    loop.close()
        return ('ok', r)
    except BaseException as e:   # noqa
        return ('exc', e)
