"""Real pjrpc clients whose transport is scripted by the harness."""
import pjrpc
from pjrpc.client import AbstractAsyncClient, AbstractClient

from ..vloop import VLoop


class ScriptClient(AbstractClient):
    """responder(request_text, is_notification, kwargs) -> response text | None, or raises"""

    def __init__(self, responder, **kw):
        super().__init__(**kw)
        self.responder = responder
        self.sent = []

    def _request(self, request_text, is_notification=False, **kwargs):
        self.sent.append((request_text, is_notification, kwargs))
        return self.responder(request_text, is_notification, kwargs)


class AsyncScriptClient(AbstractAsyncClient):
    """same, asynchronous; responder may be a plain function or return an awaitable"""

    def __init__(self, responder, **kw):
        super().__init__(**kw)
        self.responder = responder
        self.sent = []

    async def _request(self, request_text, is_notification=False, **kwargs):
        self.sent.append((request_text, is_notification, kwargs))
        r = self.responder(request_text, is_notification, kwargs)
        if hasattr(r, '__await__'):
            r = await r
        return r


def make_client(kind, responder, **kw):
    return (AsyncScriptClient if kind == 'async' else ScriptClient)(responder, **kw)


def run(kind, thunk, loop=None):
    """thunk() -> value or awaitable; returns ('ok', value) | ('exc', exception)"""
    try:
        r = thunk()
        if kind == 'async':
            own = loop is None
            loop = loop or VLoop()
            try:
                r = loop.run(r)
            finally:
                if own:
                    loop.close()
        return ('ok', r)
    except BaseException as e:   # noqa
        return ('exc', e)
