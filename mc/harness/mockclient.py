"""Client classes whose _request is patched by pjrpc's PjRpcMocker (the target must be an importable dotted path)."""
import json

from pjrpc.client import AbstractAsyncClient, AbstractClient


def real_transport(text):
    """what the 'real' (unpatched) transport answers: every call gets result 'REAL'"""
    doc = json.loads(text)
    if isinstance(doc, list):
        out = [{'jsonrpc': '2.0', 'id': e['id'], 'result': 'REAL'} for e in doc if 'id' in e]
        return json.dumps(out) if out else None
    return json.dumps({'jsonrpc': '2.0', 'id': doc['id'], 'result': 'REAL'}) if 'id' in doc else None


class _Sync(AbstractClient):
    def __init__(self, endpoint, **kw):
        super().__init__(**kw)
        self._endpoint = endpoint

    def _request(self, request_text, is_notification=False, **kwargs):
        return real_transport(request_text)


class _Async(AbstractAsyncClient):
    def __init__(self, endpoint, **kw):
        super().__init__(**kw)
        self._endpoint = endpoint

    async def _request(self, request_text, is_notification=False, **kwargs):
        return real_transport(request_text)


class SyncRefuse(_Sync):
    def _request(self, request_text, is_notification=False, **kwargs):
        return real_transport(request_text)


class SyncPass(_Sync):
    def _request(self, request_text, is_notification=False, **kwargs):
        return real_transport(request_text)


class AsyncRefuse(_Async):
    async def _request(self, request_text, is_notification=False, **kwargs):
        return real_transport(request_text)


class AsyncPass(_Async):
    async def _request(self, request_text, is_notification=False, **kwargs):
        return real_transport(request_text)
