"""Driving the real dispatchers: build, dispatch one text, observe."""
import json

import pjrpc.server

from .. import jsonstrict
from ..refmodel.server import NOTHING
from ..vloop import VLoop
from . import methods


def custom_classes():
    """trivial subclasses / wrappers for every pluggable piece of a dispatcher: behaviour must be unchanged, and the
    dispatcher must really use what it was given (each one counts its uses)"""
    import json as _json

    from pjrpc.common import v20
    from pjrpc.server.dispatcher import JSONEncoder
    uses = {}

    def count(k):
        uses[k] = uses.get(k, 0) + 1

    class Rq(v20.Request):
        @classmethod
        def from_json(cls, data):
            count('request_class')
            return super().from_json(data)

    class Rs(v20.Response):
        def to_json(self):
            count('response_class')
            return super().to_json()

        def __bool__(self):
            # the user's response class has a truth value of its own: an error response is falsy
            return self.is_success

    class BRq(v20.BatchRequest):
        @classmethod
        def from_json(cls, data):
            count('batch_request')
            return super().from_json(data)

    class BRs(v20.BatchResponse):
        def to_json(self):
            count('batch_response')
            return super().to_json()

    class Enc(JSONEncoder):
        def encode(self, o):
            count('json_encoder')
            return super().encode(o)

    class Dec(_json.JSONDecoder):
        def decode(self, s, *a, **kw):
            count('json_decoder')
            return super().decode(s, *a, **kw)

    def loads(text, **kw):
        count('json_loader')
        return _json.loads(text, **kw)

    def dumps(obj, **kw):
        count('json_dumper')
        return _json.dumps(obj, **kw)
    return dict(request_class=Rq, response_class=Rs, batch_request=BRq, batch_response=BRs, json_encoder=Enc, json_decoder=Dec,
                json_loader=loads, json_dumper=dumps), uses


def passthrough_stack(is_async):
    if is_async:
        async def mw1(rq, cx, handler):
            return await handler(rq, cx)

        async def mw2(req, ctx_, handler):
            return await handler(req, ctx_)

        async def eh(rq, cx, error):
            return error
    else:
        def mw1(rq, cx, handler):
            return handler(rq, cx)

        def mw2(req, ctx_, handler):
            return handler(req, ctx_)

        def eh(rq, cx, error):
            return error
    return dict(middlewares=[mw1, mw2], error_handlers={None: [eh], -32601: [eh, eh], -32000: [eh]})


class Sys:
    """one dispatcher under test plus its call log"""

    def __init__(self, kind, table=None, coroutine_methods=None, **cfg):
        # kind: 'sync' | 'async' | 'async-seq' (concurrent_batch=False) | 'async-wrapped' (plain functions returning coroutines)
        self.kind = kind
        self.log = []
        self.is_async = kind.startswith('async')
        self.uses = None
        self.left_running = []
        if 'custom' in kind:
            # 'sync-custom' / 'async-custom': every pluggable class / function replaced by a counting subclass / wrapper
            cc, self.uses = custom_classes()
            cfg = dict(cc, **cfg)
        if 'mw' in kind:
            # 'sync-mw' / 'async-mw': pass-through middlewares (whose parameters are not called request / context) and identity error
            # handlers - configured user code that changes nothing must change nothing
            cfg = dict(passthrough_stack(self.is_async), **cfg)
        if self.is_async:
            if 'seq' in kind:
                cfg = dict(cfg, concurrent_batch=False)
            if 'conc2' in kind:
                # a truthy value other than True (a documented bool; a future 'limit' reading must behave no worse): concurrent
                cfg = dict(cfg, concurrent_batch=2)
            if 'wrapped' in kind and coroutine_methods is None:
                coroutine_methods = 'wrapped'
            self.d = pjrpc.server.AsyncDispatcher(**cfg)
        else:
            self.d = pjrpc.server.Dispatcher(**cfg)
        if coroutine_methods is None:
            coroutine_methods = self.is_async
        if table:
            if 'pd' in kind:
                # 'sync-pd' / 'async-pd': every (unannotated) method is validated by one PydanticValidator: nothing may change
                from pjrpc.server.validators import pydantic as _vpd
                v = _vpd.PydanticValidator()
                for name, beh in table.items():
                    if beh['kind'] == 'viewstate':
                        methods.register_stateful_view(self.d, name, self.log, bool(coroutine_methods))
                        continue
                    self.d.add(v.validate(methods.build_function(name, beh, self.log, is_async=coroutine_methods)), name=name)
            else:
                methods.register(self.d, table, self.log, is_async=coroutine_methods)

    def dispatch(self, text, context=None):
        """-> ('raise', exc) | ('ret', value)   (value is whatever dispatch returned)"""
        if 'log' in self.kind:
            # '<kind>-log': the application runs with the pjrpc loggers enabled for DEBUG
            from .clientrun import debug_logging
            with debug_logging(True):
                return self._dispatch(text, context)
        return self._dispatch(text, context)

    def _dispatch(self, text, context=None):
        try:
            if self.is_async:
                import asyncio
                loop = VLoop()
                try:
                    r = loop.run(self.d.dispatch(text, context=context))
                    # everything the dispatch started must be finished when it returns
                    self.left_running = [t for t in asyncio.all_tasks(loop) if not t.done()]
                    for t in self.left_running:
                        t.cancel()
                    if self.left_running:
                        loop.run_ready()
                finally:
                    loop.close()
            else:
                r = self.d.dispatch(text, context=context)
        except Exception as e:     # noqa - totality is part of what is checked
            return ('raise', e)
        return ('ret', r)

    def take_log(self):
        log, self.log[:] = list(self.log), []
        return log


def parse_return(r):
    """
    value returned by dispatch -> (problem | None, answer, codes)
    answer = NOTHING | python value of the response document (json.loads)
    """
    if r is None:
        return None, NOTHING, None
    if not (isinstance(r, tuple) and len(r) == 2 and isinstance(r[0], str) and isinstance(r[1], tuple)):
        return 'dispatch returned %r, not (text, codes)' % (r,), None, None
    text, codes = r
    ok, tree = jsonstrict.parse(text)
    if not ok:
        return 'response text is not JSON (%s): %s' % (tree, text[:200]), None, codes
    return None, jsonstrict.to_python(tree), codes
