"""
One complete client execution under a scripted transport: which outcome each send attempt gets is an
environment choice (env.choose).  Records everything a caller / tracer / transport can observe.
Used by C09 (retry), C19 (tracers), C11 (sync/async twins).
"""
import asyncio
import json
from types import SimpleNamespace

import pjrpc
from pjrpc.client import retry as R
from pjrpc.client.tracer import Tracer
from pjrpc.common import UNSET, BatchRequest, BatchResponse, Request, Response
from pjrpc.common.exceptions import JsonRpcError

from .. import sleeplog
from ..vloop import VLoop
from .client import make_client

C1, C2, CU = 2001, -32050, 2999          # C2 lies in the range reserved for implementation-defined server errors (-32099..-32000)


class E1(Exception):
    pass


class SubE1(E1):
    pass


class E2(Exception):
    pass


class EU(Exception):
    pass


class OverSend(BaseException):
    """raised by the scripted transport when the client sends more often than n+1 times: ends the execution at once, so that a
    retry loop that is too generous shows up as a violation instead of blowing up the choice tree"""


CODESETS = {'none': None, 'empty': set(), 'one': {C1}, 'two': {C1, C2}, 'zero': {0}}
EXCSETS = {'none': None, 'empty': set(), 'one': {E1}, 'two': {E1, E2}, 'wide': {Exception}}


class ScriptedJitter:
    def __init__(self, values):
        self.values = list(values)
        self.i = 0

    def __call__(self):
        v = self.values[self.i % len(self.values)]
        self.i += 1
        return v


def make_backoff(spec, attempts):
    """spec: dict(family=, ...params, jitter=[...]|None)"""
    kw = {}
    if spec.get('jitter'):
        kw['jitter'] = ScriptedJitter(spec['jitter'])
    f = spec['family']
    if spec.get('positional'):
        # configured by position, in the documented parameter order (attempts, jitter, then the family's own parameters)
        jit = kw.get('jitter') or (lambda: 0.0)
        if f == 'periodic':
            return R.PeriodicBackoff(attempts, jit, spec.get('interval', 1.0))
        if f == 'exponential':
            return R.ExponentialBackoff(attempts, jit, spec.get('base', 1.0), spec.get('factor', 2.0), spec.get('max_value'))
        return R.FibonacciBackoff(attempts, jit, spec.get('multiplier', 1.0), *([spec['max_value']] if 'max_value' in spec else []))
    if f == 'periodic':
        return R.PeriodicBackoff(attempts=attempts, interval=spec.get('interval', 1.0), **kw)
    if f == 'exponential':
        return R.ExponentialBackoff(attempts=attempts, base=spec.get('base', 1.0), factor=spec.get('factor', 2.0),
                                    max_value=spec.get('max_value'), **kw)
    if f == 'fibonacci':
        if 'max_value' in spec:
            kw['max_value'] = spec['max_value']
        return R.FibonacciBackoff(attempts=attempts, multiplier=spec.get('multiplier', 1.0), **kw)
    raise AssertionError(f)


def make_strategy(s):
    """s: None | dict(attempts=, codes=, excs=, backoff=spec)"""
    if s is None:
        return None
    return R.RetryStrategy(backoff=make_backoff(s['backoff'], s['attempts']), codes=CODESETS[s['codes']],
                           exceptions=EXCSETS[s['excs']])


class LogTracer(Tracer):
    def __init__(self, idx, log):
        self.idx = idx
        self.log = log

    # distinct tracer objects that compare equal (like dataclass tracers with the same settings)
    def __eq__(self, other):
        return isinstance(other, Tracer)

    def __hash__(self):
        return 1

    def on_request_begin(self, trace_context, request):
        self.log.append((self.idx, 'begin', trace_context, request, None))

    def on_request_end(self, trace_context, request, response):
        self.log.append((self.idx, 'end', trace_context, request, response))

    def on_error(self, trace_context, request, error):
        self.log.append((self.idx, 'error', trace_context, request, error))


class PartialTracer(Tracer):
    """overrides begin / end only: failures must not be reported to it as an 'end'"""
    def __init__(self, idx, log):
        self.idx = idx
        self.log = log

    def on_request_begin(self, trace_context, request):
        self.log.append((self.idx, 'begin', trace_context, request, None))

    def on_request_end(self, trace_context, request, response):
        self.log.append((self.idx, 'end', trace_context, request, response))


class ChainTracer(LogTracer):
    """logs and chains to the base class implementation of every hook"""
    def on_request_begin(self, trace_context, request):
        super().on_request_begin(trace_context, request)
        Tracer.on_request_begin(self, trace_context, request)

    def on_request_end(self, trace_context, request, response):
        super().on_request_end(trace_context, request, response)
        Tracer.on_request_end(self, trace_context, request, response)

    def on_error(self, trace_context, request, error):
        super().on_error(trace_context, request, error)
        Tracer.on_error(self, trace_context, request, error)


def instance_tracer(idx, log):
    """a plain Tracer object whose handlers are attributes assigned on the INSTANCE (callbacks, spies, mock.patch.object)"""
    t = Tracer()
    t.idx = idx
    t.on_request_begin = lambda trace_context, request: log.append((idx, 'begin', trace_context, request, None))
    t.on_request_end = lambda trace_context, request, response: log.append((idx, 'end', trace_context, request, response))
    t.on_error = lambda trace_context, request, error: log.append((idx, 'error', trace_context, request, error))
    return t


def late_tracer(idx, log):
    """handlers are put in place only AFTER the client was constructed (see execute)"""
    t = Tracer()
    t.idx = idx
    t.late = lambda: instance_tracer_fill(t, idx, log)
    return t


def instance_tracer_fill(t, idx, log):
    t.on_request_begin = lambda trace_context, request: log.append((idx, 'begin', trace_context, request, None))
    t.on_request_end = lambda trace_context, request, response: log.append((idx, 'end', trace_context, request, response))
    t.on_error = lambda trace_context, request, error: log.append((idx, 'error', trace_context, request, error))


def logging_tracer(idx, log):
    """the library's own LoggingTracer (it writes to the logging module, not to the event log of the harness)"""
    from pjrpc.client.tracer import LoggingTracer
    return LoggingTracer()


TRACER_KINDS = {'full': LogTracer, 'partial': PartialTracer, 'chain': ChainTracer, 'instance': instance_tracer, 'late': late_tracer,
                'logging': logging_tracer}


def request_ids(kind):
    return {'single': [1], 'batch': [1, 2], 'notification': [], 'notifbatch': []}[kind]


def outcome_menu(cfg):
    """the environment's answers for one send attempt, default (success) first"""
    rk = cfg['request']
    menu = ['ok']
    notif = rk in ('notification', 'notifbatch')
    if not notif:
        if rk == 'batch':
            menu += ['level_listed', 'level_listed2', 'level_unlisted']
            if cfg.get('elem_errors'):
                menu += ['elem_listed']      # a well-formed response array in which ONE call failed with a listed code
        else:
            menu += ['code_listed', 'code_listed2', 'code_unlisted']
    if notif:
        menu += ['ok_empty']          # the transport answers a notification with an empty body ('')
        if not cfg.get('strict', True):
            # a lenient client whose transport hands back what the server answered to a notification: an error object with a listed code
            menu += ['notif_reply_listed']
    menu += ['exc_listed', 'exc_sub', 'exc_listed2', 'exc_unlisted']
    if cfg.get('same_exc'):
        menu += ['exc_same']           # the transport re-raises ONE stored exception object (a circuit breaker, a mock side effect)
    if cfg.get('c19'):
        if rk == 'batch':
            menu += ['elem_error']      # an answered batch in which one call failed (no batch-level error)
        if not notif:
            menu += ['notjson', 'notresp', 'identity']
        else:
            menu += ['unexpected_body']
        menu += ['base']
    return [m for m in menu if m not in cfg.get('drop', ())]


def body_for(cfg, name, k, same=None):
    """(body text | exception instance) for outcome `name` at attempt k"""
    rk = cfg['request']
    ids = request_ids(rk)

    def resp(id, **kw):
        return dict(jsonrpc='2.0', id=id, **kw)

    def err(code):
        return {'code': code, 'message': 'attempt %d' % k, 'data': {'attempt': k}}
    if name == 'ok_empty':
        return ''
    if name == 'notif_reply_listed':
        return json.dumps(dict(jsonrpc='2.0', id=None, error={'code': C1, 'message': 'attempt %d' % k}))
    if name == 'ok':
        if not ids:
            return None
        docs = [resp(i, result={'attempt': k, 'id': i}) for i in ids]
        return json.dumps(docs if rk == 'batch' else docs[0])
    if name in ('code_listed', 'code_listed2', 'code_unlisted'):
        code = {'code_listed': C1, 'code_listed2': C2, 'code_unlisted': CU}[name]
        if name == 'code_listed' and cfg.get('zero_code'):
            code = 0
        return json.dumps(resp(ids[0], error=err(code)))
    if name == 'elem_listed':
        return json.dumps([resp(ids[0], error=err(C1)), resp(ids[1], result={'attempt': k, 'id': ids[1]})])
    if name == 'elem_error':
        return json.dumps([resp(ids[0], result={'attempt': k, 'id': ids[0]}), resp(ids[1], error=err(CU))])
    if name in ('level_listed', 'level_listed2', 'level_unlisted'):
        code = {'level_listed': C1, 'level_listed2': C2, 'level_unlisted': CU}[name]
        if name == 'level_listed' and cfg.get('zero_code'):
            code = 0
        return json.dumps(resp(None, error=err(code)))
    if name == 'exc_same':
        return same
    if name == 'exc_listed':
        return E1('attempt %d' % k)
    if name == 'exc_sub':
        return SubE1('attempt %d' % k)
    if name == 'exc_listed2':
        return E2('attempt %d' % k)
    if name == 'exc_unlisted':
        # an unlisted exception that was raised FROM a listed one (a library error wrapping a timeout ...): the type that reaches the
        # retry loop decides, not what it wraps
        e = EU('attempt %d' % k)
        e.__cause__ = E1('wrapped by attempt %d' % k)
        e.__context__ = e.__cause__
        return e
    if name == 'notjson':
        return 'garbage %d' % k
    if name == 'notresp':
        return '{"attempt": %d}' % k
    if name == 'identity':
        docs = [resp(i + 100, result=k) for i in ids]
        return json.dumps(docs if rk == 'batch' else docs[0])
    if name == 'unexpected_body':
        return '{"jsonrpc":"2.0","id":null,"result":%d}' % k
    if name == 'base':
        return asyncio.CancelledError('attempt %d' % k) if cfg['kind'] == 'async' else KeyboardInterrupt('attempt %d' % k)
    raise AssertionError(name)


class debug_logging:
    """the process runs with DEBUG logging switched on for the pjrpc loggers - from before the client object is constructed"""
    def __init__(self, on):
        self.on = on

    def __enter__(self):
        import logging
        if self.on:
            self.h = logging.NullHandler()
            self.lg = logging.getLogger('pjrpc')
            self.old = (logging.root.manager.disable, self.lg.level)
            logging.disable(logging.NOTSET)
            self.lg.setLevel(logging.DEBUG)
            self.lg.addHandler(self.h)

    def __exit__(self, *a):
        import logging
        if self.on:
            self.lg.removeHandler(self.h)
            self.lg.setLevel(self.old[1])
            logging.disable(self.old[0])
        return False


def execute(cfg, env, horizon=12):
    with debug_logging(cfg.get('debug_log')):
        return _execute(cfg, env, horizon)


def _execute(cfg, env, horizon=12):
    """
    cfg: kind sync|async, request single|batch|notification|notifbatch, client_strategy, request_strategy
    ('unset' | None | dict), tracers (int), ctx ('default'|'supplied'), via ('call'|'send'), c19 (bool)
    -> observation dict
    """
    menu = outcome_menu(cfg)
    state = dict(script=[], tag=0, same=E1('one stored exception object'))          # script: (name, raised exception | body) of the request being made
    sleeplog.take()
    rs_ = cfg.get('request_strategy', 'unset')
    eff = cfg.get('client_strategy') if (isinstance(rs_, str) and rs_ == 'unset') else rs_
    max_sends = (eff['attempts'] if eff else 0) + 1

    def responder(text, is_notif, kwargs):
        script = state['script']
        k = len(script)
        if k >= max_sends:
            script.append(('HORIZON', None))
            raise OverSend('send %d with a strategy of %d attempts' % (k + 1, max_sends - 1))
        if k >= horizon:
            script.append(('HORIZON', None))
            raise EU('horizon')
        name = menu[env.choose(('attempt', state['tag'], k), len(menu))]
        if cfg.get('attempt_takes'):
            # the attempt itself takes (virtual) time - longer than any pause that follows it
            sleeplog.advance(cfg['attempt_takes'])
            try:
                lp = asyncio.get_running_loop()
                if hasattr(lp, '_vtime'):
                    lp._vtime += cfg['attempt_takes']
            except RuntimeError:
                pass
        b = body_for(cfg, name, k, same=state['same'])
        script.append((name, b))
        if isinstance(b, BaseException):
            raise b
        return b

    tlog = []
    tk = cfg.get('tracer_kinds') or ['full'] * cfg.get('tracers', 0)
    tracers = [TRACER_KINDS[k](i, tlog) for i, k in enumerate(tk)]
    kw = {}
    if cfg.get('client_strategy') is not None:
        kw['retry_strategy'] = make_strategy(cfg['client_strategy'])
    client = make_client(cfg['kind'], responder, tracers=tracers, strict=cfg.get('strict', True), **kw)
    for t in tracers:
        if hasattr(t, 'late'):
            t.late()
    rk = cfg['request']
    # one long-lived client (and, for per-request strategies, one long-lived strategy object) makes `repeat` requests in a row
    rs = cfg.get('request_strategy', 'unset')
    shared_kw = {}
    if not (isinstance(rs, str) and rs == 'unset'):
        shared_kw['_retry_strategy'] = make_strategy(rs)
    runs = []
    for rep in range(cfg.get('repeat', 1)):
        state['script'] = []
        state['tag'] = rep
        n_sent, n_ev = len(client.sent), len(tlog)
        ctx = SimpleNamespace(tag='supplied') if cfg.get('ctx') == 'supplied' else None
        send_kw = dict(shared_kw)
        via = cfg.get('via', 'call')
        if send_kw:
            via = 'send'
        box = dict(request=None)

        def thunk():
            if cfg.get('unserialisable'):
                # parameters the JSON encoder cannot serialise: the attempt fails before anything reaches the transport
                return client.call('m', {1, 2}, _trace_ctx=ctx) if rk == 'single' else client.batch.add('a', {1, 2}).call(_trace_ctx=ctx)
            if rk == 'single':
                if via == 'dunder':
                    return client('m', 1, _trace_ctx=ctx)
                if via == 'proxy':
                    return client.proxy.m(1, _trace_ctx=ctx)
                if via == 'call':
                    return client.call('m', 1, _trace_ctx=ctx)
                box['request'] = Request('m', [1], id=1)
                return client.send(box['request'], _trace_ctx=ctx, **send_kw)
            if rk == 'notification':
                if via == 'call':
                    return client.notify('m', 1, _trace_ctx=ctx)
                box['request'] = Request('m', [1])
                return client.send(box['request'], _trace_ctx=ctx, **send_kw)
            b = client.batch
            if rk == 'batch':
                if via == 'proxy':
                    return b.proxy.a(1).b(2).call(_trace_ctx=ctx)
                if via == 'dunder':
                    return b('a', 1)('b', 2).call(_trace_ctx=ctx)
                if via == 'call':
                    return b.add('a', 1).add('b', 2).call(_trace_ctx=ctx)
                box['request'] = BatchRequest(Request('a', [1], id=1), Request('b', [2], id=2))
                return b.send(box['request'], _trace_ctx=ctx, **send_kw)
            if via == 'call':
                return b.notify('a', 1).notify('b', 2).call(_trace_ctx=ctx)
            box['request'] = BatchRequest(Request('a', [1]), Request('b', [2]))
            return b.send(box['request'], _trace_ctx=ctx, **send_kw)

        loop = None
        try:
            if cfg.get('in_except'):
                # the call is made while the caller is handling another, unrelated exception
                try:
                    raise KeyError('unrelated outer exception')
                except KeyError:
                    r = thunk()
                    if cfg['kind'] == 'async':
                        loop = VLoop()
                        r = loop.run(r)
            else:
                r = thunk()
                if cfg['kind'] == 'async':
                    loop = VLoop()
                    r = loop.run(r)
            outcome = ('ok', r)
        except BaseException as e:   # noqa
            outcome = ('exc', e)
        finally:
            if loop is not None:
                loop.close()
        sleeps = sleeplog.take()
        runs.append(dict(script=state['script'], sends=list(client.sent[n_sent:]), sleeps=sleeps, outcome=outcome, events=tlog[n_ev:], ctx=ctx,
                         request=box['request'], loop_sleeps=(loop.sleeps if loop else None), menu=menu))
    obs = runs[0]
    obs['later'] = runs[1:]
    return obs


def summarize_value(v):
    if isinstance(v, BatchResponse):
        if v.is_error:
            return ('batchresp-error', v.error.code, v.error.message)
        return ('batchresp', tuple((r.id, 'err' if r.is_error else json.dumps(r.result, sort_keys=True)) for r in v))
    if isinstance(v, Response):
        if v.is_error:
            return ('resp-error', v.id, v.error.code, v.error.message)
        return ('resp', v.id, json.dumps(v.result, sort_keys=True))
    if isinstance(v, tuple):
        return ('tuple', json.dumps(v, sort_keys=True))
    return ('value', json.dumps(v, sort_keys=True, default=repr))


def summarize(obs):
    """hashable, process-independent digest of an observation (for determinism / twin comparison)"""
    k, v = obs['outcome']
    if k == 'ok':
        out = ('ok', summarize_value(v))
    else:
        out = ('exc', type(v).__name__, str(v)[:80], getattr(v, 'code', None))
    ctxs = {}
    ev = []
    for idx, what, ctx, req, payload in obs['events']:
        ctxs.setdefault(id(ctx), len(ctxs))
        if what == 'begin':
            p = None
        elif what == 'end':
            p = None if payload is None else summarize_value(payload)
        else:
            p = (type(payload).__name__, str(payload)[:60])
        ev.append((idx, what, ctxs[id(ctx)], p))
    later = tuple(summarize(o) for o in obs.get('later', ()))
    return (tuple(n for n, _ in obs['script']), tuple((t, n) for t, n, _ in obs['sends']),
            tuple(d for _, d in obs['sleeps']), out, tuple(ev)) + ((later,) if later else ())
