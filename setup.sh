#!/bin/bash
# offline setup: nothing is fetched or built; byte-compile the framework and run the engine self-tests
cd "$(dirname "${BASH_SOURCE[0]}")" || exit 2
set -e
mkdir -p evidence replays
/venv/bin/python -m compileall -q mc props selftest tools >/dev/null
for t in selftest/test_*.py; do
  PYTHONHASHSEED=0 /venv/bin/python "$t"
done
python3-vt - <<'PY'
import json, jsonschema
m = json.load(open('MANIFEST.json'))
jsonschema.validate(m, json.load(open('/root/.vp/MANIFEST.schema.json'))) if __import__('os').path.exists('/root/.vp/MANIFEST.schema.json') else None
print('MANIFEST.json valid: %d checks' % len(m['checks']))
PY
