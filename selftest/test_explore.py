"""self-test of the choice-point explorer: complete enumeration, deviation budgets, sharding partitions the leaves"""
import sys
sys.path.insert(0, __file__.rsplit('/', 2)[0])
from mc.core import explore_choices


def run(env):
    # a tree with data dependent shape: 3 binary choices, then a ternary one iff the first was 1
    a = env.choose('a', 2)
    b = env.choose('b', 2)
    c = env.choose('c', 2, cost=0)
    d = env.choose('d', 3) if a else 0
    return (a, b, c, d)


full = sorted(o for _, o in explore_choices(run))
assert len(full) == len(set(full)) == 4 * 1 + 4 * 3, full
b1 = sorted(o for _, o in explore_choices(run, budget=1))
assert all(sum(1 for x in (o[0], o[1], o[3]) if x) <= 1 for o in b1) and len(b1) == len(set(b1)) == 6, b1
for D in (1, 2):
    parts = []
    for k in range(3):
        parts += [o for _, o in explore_choices(run, shard=(k, 3, D))]
    assert sorted(parts) == full, (D, sorted(parts), full)
print('explore selftest: ok (%d leaves, budget-1 %d leaves, sharding partitions the tree)' % (len(full), len(b1)))
