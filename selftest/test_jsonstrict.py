"""self-test of S1: agreement with json.loads except on the documented differences"""
import itertools
import json
import sys
sys.path.insert(0, __file__.rsplit('/', 2)[0])
from mc import jsonstrict as js

TOK = ['{', '}', '[', ']', ',', ':', '"a"', '1', 'true', 'null', ' ', '-', '1.5', '"\\n"']
bad = 0
n = 0
for L in range(0, 5):
    for toks in itertools.product(TOK, repeat=L):
        t = ''.join(toks)
        n += 1
        ok, v = js.parse(t)
        try:
            pv = json.loads(t)
            jok = True
        except ValueError:
            jok = False
        if ok != jok or (ok and js.to_python(v) != pv):
            bad += 1
            print('DIFF', repr(t), ok, jok)
for t, exp in [('NaN', False), ('Infinity', False), ('-Infinity', False), ('[NaN]', False), ('﻿1', False),
               ('"\x01"', False), ('1' * 5000, True), ('1e999', True), ('-0', True), ('01', False), ('1.', False),
               ('"\\ud800"', True), ('"\\x"', False), ('[' * 3000 + ']' * 3000, True), ('{"a":1,"a":2}', True),
               ('\t[ 1 , 2 ]\n', True), ('"\ud800"', True), ('"\U0001F600"', True), ('tru', False), ('', False)]:
    n += 1
    ok = js.is_json(t)
    if ok != exp:
        bad += 1
        print('EDGE', repr(t[:30]), ok, exp)
print('jsonstrict selftest: %d texts, %d disagreements' % (n, bad))
sys.exit(1 if bad else 0)
