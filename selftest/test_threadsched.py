"""self-test of E5: the explorer finds a lost update in a toy counter with one preemption and none with zero"""
import os
import sys
sys.path.insert(0, __file__.rsplit('/', 2)[0])
from mc.core import explore_choices
from mc.threadsched import run_threads

HERE = os.path.abspath(__file__)


class Counter:
    def __init__(self):
        self.v = 0

    def incr(self):
        x = self.v
        x = x + 1
        self.v = x


def once(env):
    c = Counter()
    res, r = run_threads([c.incr, c.incr], env, [HERE])
    return c.v, r.points


results = {}
for budget in (0, 1, 2):
    outs = set()
    n = 0
    for choices, (v, pts) in explore_choices(once, budget=budget):
        outs.add(v)
        n += 1
    results[budget] = (n, sorted(outs))
    print('threadsched selftest: budget %d -> %d schedules, final values %s' % (budget, n, sorted(outs)))
ok = results[0][1] == [2] and 1 in results[1][1] and results[0][0] == 2
# determinism: same choices twice -> same observation
a = [x for x in explore_choices(once, budget=1)]
b = [x for x in explore_choices(once, budget=1)]
ok = ok and a == b
print('threadsched selftest:', 'ok' if ok else 'FAILED')
sys.exit(0 if ok else 1)
